"""Two directions between Kernel.tla's `net` record and live py4hw objects.

build(net)    : construct a real HWSystem from a net record (binding R)
extract(sys)  : read the leaf netlist of a live object into a net record (binding X / V)
No semantics here: only attribute reads and constructor calls.
"""
from .common import quiet


class Unsupported(Exception):
    pass


def _lib():
    import py4hw
    return py4hw


def make_leaf(hw, nm, k, ins, outs, p):
    """one leaf of kind k under parent hw (constructor call only)"""
    py4hw = _lib()
    if k in ('And2', 'Or2', 'Sub', 'Mul', 'SignedMul', 'Div', 'Mod'):
        o = getattr(py4hw, k)(hw, nm, ins[0], ins[1], outs[0])
    elif k in ('Not', 'Buf', 'ZeroExtend', 'SignExtend', 'Repeat'):
        o = getattr(py4hw, k)(hw, nm, ins[0], outs[0])
    elif k in ('BitsLSBF', 'BitsMSBF'):
        o = getattr(py4hw, k)(hw, nm, ins[0], outs)
    elif k == 'Bit':
        o = py4hw.Bit(hw, nm, ins[0], p[0], outs[0])
    elif k == 'Range':
        o = py4hw.Range(hw, nm, ins[0], p[0], p[1], outs[0])
    elif k in ('ConcatenateMSBF', 'ConcatenateLSBF'):
        o = getattr(py4hw, k)(hw, nm, ins, outs[0])
    elif k in ('ShiftLeftConstant', 'ShiftRightConstant', 'RotateLeftConstant', 'RotateRightConstant'):
        o = getattr(py4hw, k)(hw, nm, ins[0], p[0], outs[0])
    elif k == 'Constant':
        o = py4hw.Constant(hw, nm, p[0], outs[0])
    elif k == 'Mux2':
        o = py4hw.Mux2(hw, nm, ins[0], ins[1], ins[2], outs[0])
    elif k == 'Reg':
        hasE, hasR, rv = p
        e = ins[1] if hasE else None
        r = ins[2 if hasE else 1] if hasR else None
        o = py4hw.Reg(hw, nm, ins[0], outs[0], enable=e, reset=r, reset_value=rv)
    elif k == 'SynchronousMemory':
        o = py4hw.SynchronousMemory(hw, nm, ins[0], ins[1], ins[2], outs[0], ins[3])
    elif k == 'Sequence':
        o = py4hw.Sequence(hw, nm, list(p[1:]), outs[0], once=bool(p[0]))
    elif k == 'AddCarryIn':
        o = py4hw.AddCarryIn(hw, nm, ins[0], ins[1], outs[0], ins[2])
    else:
        raise Unsupported('build: kind ' + k)
    return o


def build(net, names=None, same_names=False):
    """net = {'width': [...], 'leaves': [{'kind','ins','outs','p','dom'}], 'doms': [{'en': w}]}
    (1-based wire ids).  Returns (sys, wires) with wires[i-1] the py4hw Wire of id i.
    Leaves are instantiated in list order directly under the HWSystem."""
    py4hw = _lib()
    hw = py4hw.HWSystem()
    wires = [hw.wire('w%d' % (k + 1), w) for k, w in enumerate(net['width'])]
    W = lambda i: wires[i - 1]
    objs = []
    drivers = [hw.clockDriver]
    for d, dm in enumerate(net.get('doms', [])[1:], start=2):
        # name: 'same_names' gives every extra driver the name of the system clock driver (names carry no meaning)
        drivers.append(py4hw.ClockDriver(hw.clockDriver.name if same_names else 'clk%d' % d, base=hw.clockDriver,
                                         enable=W(dm['en']) if dm['en'] else None, wire=hw.wire('clk%d' % d)))
    for b, lf in enumerate(net['leaves']):
        k = lf['kind']
        nm = (names[b] if names else 'l%d' % (b + 1))
        ins = [W(i) for i in lf['ins']]
        outs = [W(i) for i in lf['outs']]
        p = lf.get('p', [])
        o = make_leaf(hw, nm, k, ins, outs, p)
        d = lf.get('dom', 0)
        if d and d > 1:
            o.clockDriver = drivers[d - 1]
        objs.append(o)
    return hw, wires, objs


def _params(leaf):
    k = type(leaf).__name__
    if k == 'Bit':
        return [leaf.bit]
    if k == 'Range':
        return [leaf.high, leaf.low]
    if k == 'Constant':
        return [leaf.value]
    if k in ('ShiftLeftConstant', 'ShiftRightConstant'):
        return [leaf.getParameterValue('n')]
    if k in ('RotateLeftConstant', 'RotateRightConstant'):
        return [leaf.n]
    if k == 'Reg':
        return [0 if leaf.e is None else 1, 0 if leaf.r is None else 1, leaf.reset_value]
    if k == 'SynchronousMemory':
        return [leaf.read_address.getWidth()]
    if k == 'Sequence':
        return [1 if leaf.once else 0] + list(leaf.values)
    return []


def _port_order(leaf):
    """input wires in the order PrimSem expects for this kind"""
    k = type(leaf).__name__
    byname = {p.name: p.wire for p in leaf.inPorts}
    if k == 'Reg':
        out = [byname['d']]
        if 'e' in byname:
            out.append(byname['e'])
        if 'r' in byname:
            out.append(byname['r'])
        return out
    if k == 'SynchronousMemory':
        return [byname['read_address'], byname['write_address'], byname['write'], byname['writedata']]
    if k == 'Mux2':
        return [byname['sel'], byname['sel0'], byname['sel1']]
    if k == 'AddCarryIn':
        return [byname['a'], byname['b'], byname['ci']]
    if k == 'UARTSerializer':
        return [byname['valid'], byname['v'], byname['uart_clock_posedge']]
    if k == 'UARTDeserializer':
        return [byname['rx'], byname['ready'], byname['rx_sample']]
    if k == 'ClockSyncFSM':
        return [byname['start'], byname['stop']]
    return [p.wire for p in leaf.inPorts]


def _out_order(leaf):
    k = type(leaf).__name__
    byname = {p.name: p.wire for p in leaf.outPorts}
    if k == 'UARTSerializer':
        return [byname['ready'], byname['tx']]
    if k == 'UARTDeserializer':
        return [byname['valid'], byname['v'], byname['clock_desync']]
    if k == 'ClockSyncFSM':
        return [byname['sync'], byname['active']]
    return [p.wire for p in leaf.outPorts]


KNOWN_KINDS = {"And2", "Or2", "Not", "Buf", "ZeroExtend", "Bit", "BitsLSBF", "BitsMSBF",
               "Range", "ConcatenateMSBF", "ConcatenateLSBF", "Repeat", "Constant", "Mux2",
               "ShiftLeftConstant", "ShiftRightConstant", "RotateLeftConstant",
               "RotateRightConstant", "AddCarryIn", "Sub", "Mul", "SignedMul", "Div", "Mod",
               "SignExtend", "GatedClock", "Reg", "SynchronousMemory", "Sequence",
               "UARTSerializer", "UARTDeserializer", "ClockSyncFSM"}


def all_wires(hw):
    """every Wire reachable from the hierarchy: Logic._wires recursively plus port wires"""
    seen = {}
    order = []

    def add(w):
        if w is not None and id(w) not in seen:
            seen[id(w)] = len(order) + 1
            order.append(w)

    def walk(o):
        for w in o._wires.values():
            add(w)
        for p in o.inPorts + o.outPorts + getattr(o, 'inOutPorts', []):
            add(p.wire)
        for c in o.children.values():
            walk(c)
    walk(hw)
    return order, seen


def extract(hw, leaf_order=None):
    """net record of the leaf netlist below hw (leaves in allLeaves() order)."""
    from py4hw.base import getObjectClockDriver
    order, ids = all_wires(hw)
    leaves = leaf_order if leaf_order is not None else hw.allLeaves()
    doms = []
    dom_ids = {}
    out = []
    for lf in leaves:
        k = type(lf).__name__
        if k not in KNOWN_KINDS:
            raise Unsupported('extract: leaf kind %s (%s)' % (k, lf.getFullPath()))
        d = 0
        if lf.isClockable():
            drv = getObjectClockDriver(lf)
            if id(drv) not in dom_ids:
                dom_ids[id(drv)] = len(doms) + 1
                doms.append({'en': ids[id(drv.enable)] if drv.enable is not None else 0})
            d = dom_ids[id(drv)]
        outs = [ids[id(w)] for w in _out_order(lf)]
        out.append({'kind': k, 'ins': [ids[id(w)] for w in _port_order(lf)], 'outs': outs,
                    'p': _params(lf), 'dom': d, 'path': lf.getFullPath()})
    return {'width': [w.getWidth() for w in order], 'leaves': out, 'doms': doms}, order


def net_to_tla(net):
    from .tlc import to_tla
    leaves = [{'kind': l['kind'], 'ins': l['ins'], 'outs': l['outs'], 'p': l.get('p', []), 'dom': l.get('dom', 0)}
              for l in net['leaves']]
    return to_tla({'width': net['width'], 'leaves': leaves, 'doms': [{'en': d['en']} for d in net['doms']]})
