"""User-defined behavioural blocks (as a py4hw user would write them) used by the generation properties.
Imported only after the repository path has been set up (py4hw is imported at module level so that
inspect.getsource, which the transpiler relies on, finds ordinary top-level classes in a real file)."""
import py4hw


class Acc(py4hw.Logic):
    """accumulator with constructor-initialised state: its clock() method goes through the Python-to-Verilog transpiler"""

    def __init__(self, parent, name, a, q):
        super().__init__(parent, name)
        self.a = self.addIn('a', a)
        self.q = self.addOut('q', q)
        self.s = 0
        self.n = 1

    def clock(self):
        self.s = (self.s + self.a.get() + self.n) & 15
        self.q.prepare(self.s)
