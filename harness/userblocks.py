"""User-defined behavioural blocks (as a py4hw user would write them) used by the generation properties.
Imported only after the repository path has been set up (py4hw is imported at module level so that
inspect.getsource, which the transpiler relies on, finds ordinary top-level classes in a real file).

The three classes deliberately share names across roles: Acc has a LOCAL called m and Peak a PORT called m, Peak has locals
q and s while Acc has a port q and a state attribute s.  Whatever a generator or the transpiler remembers about one class
must not colour the text of the other."""
import py4hw


class Acc(py4hw.Logic):
    """accumulator with constructor-initialised state: its clock() method goes through the Python-to-Verilog transpiler"""

    def __init__(self, parent, name, a, q):
        super().__init__(parent, name)
        self.a = self.addIn('a', a)
        self.q = self.addOut('q', q)
        self.s = 0
        self.n = 1

    def clock(self):
        m = self.a.get() + self.n
        self.s = (self.s + m) & 15
        self.q.prepare(self.s)


class Peak(py4hw.Logic):
    """running maximum of the low bits of its input"""

    def __init__(self, parent, name, a, m):
        super().__init__(parent, name)
        self.a = self.addIn('a', a)
        self.m = self.addOut('m', m)
        self.best = 0

    def clock(self):
        q = self.a.get() & 7
        s = q + 1
        if s > self.best:
            self.best = s
        self.m.prepare(self.best)


class ParamShifter(py4hw.Logic):
    """r = a << n, n being a Verilog parameter of the module (it may be a reference to a parameter of the parent)"""

    def __init__(self, parent, name, a, r, n):
        super().__init__(parent, name)
        self.a = self.addIn('a', a)
        self.r = self.addOut('r', r)
        self.addParameter('n', n)

    def propagate(self):
        self.r.put(self.a.get() << self.getParameterValue('n'))
