"""C04 Combinational settling is complete and independent of construction order.

 A. MC_Sort: TLC explores every netlist of N leaves x every instantiation order
    (model of topologicalSort + propagateAll) and checks SortedIsTopological,
    CyclicRefused, AcyclicAccepted, FixpointWhenIdle, TypeOK.  Every terminal state
    is replayed on the real HWSystem.getSimulator() (binding R, exhaustive).
 B. Trace_Sort: larger random netlists and shuffled library composites are built in
    real py4hw, the outcome is recorded and judged by TLC running the Kernel on the
    extracted netlist (binding V).
 C. Reversed chains: pass count grows linearly; the 1000-pass limit refuses an acyclic
    1001-leaf chain built in reverse (known finding).
"""
import json
import random

from .. import netlist
from ..common import quiet, MachineryError
from ..tlc import run_tlc

LEVEL = 'model_checking'
RULE = ('netlists enumerated by TLC (all wirings of N leaves incl. cycles and self-loops, all '
        'instantiation orders) plus seeded random larger netlists and shuffled library composites; '
        'distinct = distinct (kinds, wiring) netlists replayed on the real simulator')

CFG = """CONSTANTS
 MaxPasses = %(maxpasses)d
 N = %(n)d
 P = %(p)d
 Shapes = %(shapes)s
 InputVals = %(invals)s
 Emit = TRUE
 EmitMod = %(mod)d
INIT Init
NEXT Next
INVARIANT TypeOK
INVARIANT SortedIsTopological
INVARIANT TopoFastAgrees
INVARIANT CyclicRefused
INVARIANT AcyclicAccepted
INVARIANT FixpointWhenIdle
"""


def real_outcome(net, v0):
    """build in real py4hw, call getSimulator(); -> (status, order, vals, vals_after_clk)"""
    with quiet():
        hw, wires, objs = netlist.build(net)
        for k, v in enumerate(v0):
            if v:
                wires[k].put(v)
        try:
            sim = hw.getSimulator()
        except Exception as e:      # the sorter raises a plain Exception
            return 'raised', [], [], [], str(e)
        order = [objs.index(o) + 1 for o in sim.propagatables]
        vals = [w.get() for w in wires]
        # fixpoint test on the real code itself: re-evaluating any leaf changes nothing
        stable = True
        for o in sim.propagatables:
            o.propagate()
            if [w.get() for w in wires] != vals:
                stable = False
                break
        sim.clk(1)
        vals2 = [w.get() for w in wires]
    return 'idle', order, vals, vals2, stable


def judge_real(run, net, v0, model, where):
    """model = dict(status, order, cyclic, vals) from TLC; compare with the real code"""
    status, order, vals, vals2, extra = real_outcome(net, v0)
    key = json.dumps([[l['kind'], l['ins']] for l in net['leaves']])
    run.count()
    run.nontrivial(key)
    wit = {'net': net, 'v0': v0, 'model': model, 'real': {'status': status, 'order': order, 'vals': vals}}
    kinds = sorted({l['kind'] for l in net['leaves']})
    if model['cyclic']:
        if status != 'raised':
            selfloop = any(set(l['ins']) & set(l['outs']) for l in net['leaves'])
            run.violation('C04:cyclic-accepted:%s' % ('self-loop' if selfloop else 'cycle'), wit,
                          'combinational cycle accepted by getSimulator() (%s)' % where)
        return
    if status == 'raised':
        run.violation('C04:acyclic-refused:%s' % where, wit, 'acyclic netlist refused: ' + str(extra))
        return
    if model['status'] == 'idle' and vals != model['vals']:
        run.violation('C04:off-fixpoint:after-build', wit, 'wire values after getSimulator() differ from the fixpoint')
    elif extra is not True:
        run.violation('C04:off-fixpoint:unstable', wit, 're-evaluating a leaf changes a wire after getSimulator()')
    elif model['status'] == 'idle' and vals2 != model['vals']:
        run.violation('C04:off-fixpoint:after-clk', wit, 'wire values after clk(1) differ from the fixpoint')
    elif model['status'] == 'idle' and order != model['order']:
        run.drift_note('sorter order differs from Kernel!SortPass on an accepted netlist (still at fixpoint)')


def part_a(run, n, p, shapes, invals, maxpasses, mod=1):
    cfg = CFG % dict(n=n, p=p, shapes='{' + ','.join('"%s"' % s for s in shapes) + '}',
                     invals='{' + ','.join(map(str, invals)) + '}', maxpasses=maxpasses, mod=mod)
    res = run_tlc('MC_Sort', cfg, run.scratch / 'mcsort', timeout=3000)
    if res.violated:
        # the model of the code breaks the property: confirm on the real code
        stt = res.trace[-1][1] if res.trace else ''
        raise MachineryError('MC_Sort: invariant %s violated in the model; last state:\n%s' % (res.violated, stt))
    run.add_tlc(res)
    nrec = 0
    for rec in res.records:
        if rec[0] != 'T':
            continue
        _, kinds, ins, iv, pc, order, passes, cyclic, vals = rec
        net = mknet(kinds, ins, p)
        v0 = [iv if k < p else 0 for k in range(len(net['width']))]
        model = {'status': pc, 'order': order, 'cyclic': cyclic, 'vals': vals, 'passes': passes}
        judge_real(run, net, v0, model, 'N=%d' % n)
        nrec += 1
        if nrec % 5000 == 1:
            run.sample({'leaves': [[k, i] for k, i in zip(kinds, ins)], 'input': iv, 'model': pc,
                        'order': order, 'cyclic': cyclic})
    if nrec == 0:
        raise MachineryError('MC_Sort emitted no terminal states')
    run.cov['traces_validated_against_impl'] += nrec
    return nrec


def mknet(kinds, ins, p):
    width = [2] * p
    leaves = []
    for k, i in zip(kinds, ins):
        nout = 2 if k == 'BitsLSBF' else 1
        outs = list(range(len(width) + 1, len(width) + 1 + nout))
        width += [1] * nout if k == 'BitsLSBF' else [2]
        leaves.append({'kind': k, 'ins': list(i), 'outs': outs, 'p': [2] if k == 'Constant' else [], 'dom': 0})
    return {'width': width, 'leaves': leaves, 'doms': []}


# ------------------------------------------------------------------ part B
def random_net(rng, n, p, cyc_prob):
    kinds = [rng.choice(['And2', 'Or2', 'Not', 'Buf', 'BitsLSBF', 'Constant', 'And2', 'Not']) for _ in range(n)]
    net = mknet(kinds, [[] for _ in kinds], p)
    two = [k + 1 for k, w in enumerate(net['width']) if w == 2]
    allw = list(range(1, len(net['width']) + 1))
    perm = list(range(n))
    rng.shuffle(perm)           # a hidden dataflow order; instantiation order is the list order
    rank = {b: r for r, b in enumerate(perm)}
    for b, lf in enumerate(net['leaves']):
        nin = {'And2': 2, 'Or2': 2, 'Not': 1, 'Buf': 1, 'BitsLSBF': 1, 'Constant': 0}[lf['kind']]
        ins = []
        for _ in range(nin):
            pool = two if lf['kind'] == 'BitsLSBF' else allw
            if rng.random() >= cyc_prob:
                # only primary inputs or outputs of leaves earlier in the hidden order -> acyclic
                ok = [w for w in pool if w <= p or rank[owner(net, w)] < rank[b]]
                pool = ok or [w for w in pool if w <= p] or pool
            ins.append(rng.choice(pool))
        lf['ins'] = ins
    return net


def owner(net, w):
    for b, lf in enumerate(net['leaves']):
        if w in lf['outs']:
            return b
    return -1


def shuffled_composite(rng):
    """a library composite whose children (recursively) are shuffled before the first getSimulator()"""
    import py4hw
    hw = py4hw.HWSystem()
    w = rng.choice([2, 3, 4])
    a = hw.wire('a', w)
    b = hw.wire('b', w)
    kind = rng.choice(['Add', 'Sub', 'Abs', 'Comparator', 'Xor2', 'Mux', 'Equal', 'Nor', 'CLZ', 'ShiftLeft', 'Neg',
                       'SelectDefault', 'Decoder', 'Max2'])
    if kind == 'Add':
        py4hw.Add(hw, 'dut', a, b, hw.wire('r', w + 1), ci=hw.wire('ci'), co=hw.wire('co'))
    elif kind == 'Sub':
        py4hw.SignedSub(hw, 'dut', a, b, hw.wire('r', w + 1))
    elif kind == 'Abs':
        py4hw.Abs(hw, 'dut', a, hw.wire('r', w), hw.wire('inv'))
    elif kind == 'Comparator':
        py4hw.Comparator(hw, 'dut', a, b, hw.wire('gt'), hw.wire('eq'), hw.wire('lt'))
    elif kind == 'Xor2':
        py4hw.Xor2(hw, 'dut', a, b, hw.wire('r', w))
    elif kind == 'Mux':
        s = hw.wire('s', 2)
        py4hw.Mux(hw, 'dut', s, [a, b, hw.wire('c', w), hw.wire('d', w)], hw.wire('r', w))
    elif kind == 'Equal':
        py4hw.Equal(hw, 'dut', a, b, hw.wire('r'))
    elif kind == 'Nor':
        py4hw.Nor(hw, 'dut', [a, b, hw.wire('c', w)], hw.wire('r', w))
    elif kind == 'CLZ':
        py4hw.CountLeadingZeros(hw, 'dut', a, hw.wire('r', 3), hw.wire('z'))
    elif kind == 'ShiftLeft':
        py4hw.ShiftLeft(hw, 'dut', a, hw.wire('n', 2), hw.wire('r', w))
    elif kind == 'Neg':
        py4hw.Neg(hw, 'dut', a, hw.wire('r', w))
    elif kind == 'SelectDefault':
        py4hw.SelectDefault(hw, 'dut', [hw.wire('s0'), hw.wire('s1')], [a, b], hw.wire('d', w), hw.wire('r', w))
    elif kind == 'Decoder':
        py4hw.Decoder(hw, 'dut', hw.wire('s', 2), hw.wires('o', 4, 1))
    elif kind == 'Max2':
        py4hw.Max2(hw, 'dut', a, b, hw.wire('r', w))

    def shuffle(o):
        items = list(o.children.items())
        rng.shuffle(items)
        o.children = dict(items)
        for c in o.children.values():
            shuffle(c)
    shuffle(hw)
    return hw, kind


def part_b(run, n_random, n_comp, sizes):
    rng = random.Random(run.seed)
    traces = []
    meta = []
    for t in range(n_random):
        n = rng.choice(sizes)
        net = random_net(rng, n, 2, rng.choice([0.0, 0.0, 0.15, 0.4]))
        v0 = [rng.randrange(4) if k < 2 else 0 for k in range(len(net['width']))]
        status, order, vals, vals2, extra = real_outcome(net, v0)
        traces.append({'net': strip(net), 'v0': v0, 'status': status, 'order': order, 'vals': vals})
        meta.append(('random', net, v0, status, order, vals, vals2, extra))
    for t in range(n_comp):
        with quiet():
            hw, kind = shuffled_composite(rng)
            try:
                net, wires = netlist.extract(hw)
            except netlist.Unsupported as e:
                run.note('unsupported_' + kind, str(e))
                continue
            und = undriven(net)
            v0 = [rng.randrange(1 << net['width'][k]) if (k + 1) in und else 0 for k in range(len(wires))]
            for k, v in enumerate(v0):
                wires[k].put(v)
            leaves = hw.allLeaves()
            try:
                sim = hw.getSimulator()
                status = 'idle'
                prop = [o for o in leaves if o.isPropagatable()]
                order = [prop_index(leaves, o) for o in sim.propagatables]
                vals = [w.get() for w in wires]
                sim.clk(1)
                vals2 = [w.get() for w in wires]
            except Exception as e:
                status, order, vals, vals2 = 'raised', [], [], []
        traces.append({'net': strip(net), 'v0': v0, 'status': status, 'order': order, 'vals': vals})
        meta.append(('composite:' + kind, net, v0, status, order, vals, vals2, True))
    if not traces:
        return
    cfg = 'CONSTANTS\n MaxPasses = 1000\nINIT Init\nNEXT Next\nINVARIANT TypeOK\n'
    records = []
    CH = 3000
    for c0 in range(0, len(traces), CH):
        tf = run.scratch / ('sort_traces_%d.json' % c0)
        tf.write_text(json.dumps(traces[c0:c0 + CH]))
        res = run_tlc('Trace_Sort', cfg, run.scratch / ('trsort_%d' % c0), env={'TRACE_FILE': str(tf)}, timeout=3000)
        run.add_tlc(res)
        records += [[r[0], r[1] + c0] + list(r[2:]) for r in res.records]
        tf.unlink()
    judged = set()
    for rec in records:
        if rec[0] == 'J':
            judged.add(rec[1])
    if len(judged) != len(traces):
        raise MachineryError('Trace_Sort judged %d of %d traces' % (len(judged), len(traces)))
    for rec in records:
        if rec[0] == 'J':
            continue
        tid = rec[1]
        what, net, v0, status, order, vals, vals2, extra = meta[tid - 1]
        wit = {'origin': what, 'net': net, 'v0': v0, 'real': {'status': status, 'order': order, 'vals': vals}}
        if rec[0] == 'V':
            if rec[2] == 'cyclic-accepted':
                selfloop = any(set(l['ins']) & set(l['outs']) for l in net['leaves'])
                run.violation('C04:cyclic-accepted:%s' % ('self-loop' if selfloop else 'cycle'), wit,
                              'combinational cycle accepted (%s)' % what)
            elif rec[2] == 'acyclic-refused':
                run.violation('C04:acyclic-refused:' + what.split(':')[0], wit, 'acyclic netlist refused (%s)' % what)
            else:
                run.violation('C04:off-fixpoint:' + rec[2], wit, 'wires not at the fixpoint after getSimulator() (%s)' % what)
        elif rec[0] == 'D':
            run.drift_note('Trace_Sort: real %s differs from Kernel (%s)' % (rec[2], what.split(':')[0]))
    for m in meta:
        what, net, v0, status, order, vals, vals2, extra = m
        run.count()
        run.nontrivial(json.dumps([[l['kind'], l['ins']] for l in net['leaves']]))
        if status == 'idle' and vals2 != vals:
            run.violation('C04:off-fixpoint:after-clk', {'origin': what, 'net': net, 'v0': v0, 'vals': vals, 'vals2': vals2},
                          'clk(1) with unchanged inputs changed a combinational wire (%s)' % what)
        if status == 'idle' and extra is not True:
            run.violation('C04:off-fixpoint:unstable', {'origin': what, 'net': net, 'v0': v0, 'vals': vals},
                          're-evaluating a leaf changes a wire (%s)' % what)
    run.cov['traces_validated_against_impl'] += len(traces)
    run.sample({'trace': traces[0]})


def prop_index(leaves, o):
    return leaves.index(o) + 1


def strip(net):
    return {'width': net['width'],
            'leaves': [{'kind': l['kind'], 'ins': l['ins'], 'outs': l['outs'], 'p': l.get('p', []), 'dom': 0}
                       for l in net['leaves']],
            'doms': []}


def undriven(net):
    d = set()
    for l in net['leaves']:
        d.update(l['outs'])
    return set(range(1, len(net['width']) + 1)) - d


# ------------------------------------------------------------------ part D: late additions
def phased(rng, net, v0, split, nested, mid_clk):
    """the same netlist built in two phases: leaves [0, split) first, getSimulator() (and perhaps a clock call), then the
    remaining leaves, added at the top level or (nested) inside a structural block that already exists, then
    getSimulator() again.  Returns (extracted net, v0 in its wire numbering, status, order, vals after clk(1))."""
    import py4hw
    with quiet():
        hw = py4hw.HWSystem()
        wires = [hw.wire('w%d' % (k + 1), w) for k, w in enumerate(net['width'])]
        for k, v in enumerate(v0):
            if v:
                wires[k].put(v)
        late_parent = hw
        if nested:
            late_parent = py4hw.Logic(hw, 'blk')
        for b, lf in enumerate(net['leaves'][:split]):
            # with a nested block, its first member is created before the simulator exists (an empty block would be a leaf)
            parent = late_parent if (nested and b == split - 1) else hw
            netlist.make_leaf(parent, 'l%d' % (b + 1), lf['kind'], [wires[i - 1] for i in lf['ins']], [wires[i - 1] for i in lf['outs']], lf.get('p', []))
        try:
            sim = hw.getSimulator()
            if mid_clk:
                sim.clk(1)
        except Exception:
            return None
        for b, lf in enumerate(net['leaves'][split:], start=split):
            netlist.make_leaf(late_parent, 'l%d' % (b + 1), lf['kind'], [wires[i - 1] for i in lf['ins']], [wires[i - 1] for i in lf['outs']], lf.get('p', []))
        xnet, xw = netlist.extract(hw)
        pos = {id(w): k for k, w in enumerate(xw)}
        xv0 = [0] * len(xw)
        for k, v in enumerate(v0):
            if id(wires[k]) in pos:
                xv0[pos[id(wires[k])]] = v
        leaves = hw.allLeaves()
        try:
            sim = hw.getSimulator()
            order = [prop_index(leaves, o) for o in sim.propagatables]
            sim.clk(1)
            vals = [w.get() for w in xw]
            return xnet, xv0, 'idle', order, vals
        except Exception:
            return xnet, xv0, 'raised', [], []


def part_d(run, count, sizes):
    """getSimulator() on a system that already has a simulator re-sorts the whole netlist (HWSystem.getSimulator): cells added
    after the first call - at the top level or deep inside an existing block - must be evaluated, in dependency order,
    from the next clock call on.  Judged by Trace_Sort exactly like a netlist built in one go."""
    rng = random.Random(run.seed + 4)
    traces, meta = [], []
    for t in range(count):
        n = rng.choice(sizes)
        net = random_net(rng, n, 2, rng.choice([0.0, 0.0, 0.0, 0.3]))
        v0 = [rng.randrange(4) if k < 2 else 0 for k in range(len(net['width']))]
        split = rng.randrange(1, n)
        nested = rng.random() < 0.6
        out = phased(rng, net, v0, split, nested, rng.random() < 0.5)
        if out is None:
            continue            # the first part alone was refused (it contains a cycle itself)
        xnet, xv0, status, order, vals = out
        traces.append({'net': strip(xnet), 'v0': xv0, 'status': status, 'order': order, 'vals': vals})
        meta.append(('late:%s' % ('nested' if nested else 'top'), xnet, xv0, status, order, vals, split))
    if not traces:
        raise MachineryError('part D recorded nothing')
    tf = run.scratch / 'late_traces.json'
    tf.write_text(json.dumps(traces))
    cfg = 'CONSTANTS\n MaxPasses = 1000\nINIT Init\nNEXT Next\nINVARIANT TypeOK\n'
    res = run_tlc('Trace_Sort', cfg, run.scratch / 'trlate', env={'TRACE_FILE': str(tf)}, timeout=3000)
    run.add_tlc(res)
    judged = {rec[1] for rec in res.records if rec[0] == 'J'}
    if len(judged) != len(traces):
        raise MachineryError('Trace_Sort judged %d of %d late-addition traces' % (len(judged), len(traces)))
    for rec in res.records:
        if rec[0] != 'V':
            continue
        what, xnet, xv0, status, order, vals, split = meta[rec[1] - 1]
        wit = {'origin': what, 'net': xnet, 'v0': xv0, 'built_before_first_getSimulator': split,
               'real': {'status': status, 'order': order, 'vals_after_clk': vals}}
        if rec[2] == 'cyclic-accepted':
            run.violation('C04:cyclic-accepted:' + what, wit, 'combinational cycle closed by cells added after the first getSimulator() is accepted')
        elif rec[2] == 'acyclic-refused':
            run.violation('C04:acyclic-refused:' + what, wit, 'acyclic netlist refused at the second getSimulator()')
        else:
            run.violation('C04:off-fixpoint:' + what, wit,
                          'after adding cells to a simulated system, getSimulator() and clk(1): wires not at the fixpoint (%s)' % rec[2])
    for m in meta:
        run.count()
        run.nontrivial('late' + json.dumps([[l['kind'], l['ins']] for l in m[1]['leaves']]) + str(m[6]))
    run.cov['traces_validated_against_impl'] += len(traces)
    run.note('late_addition_cases', len(traces))


# ------------------------------------------------------------------ part C
def reversed_chain(n, reverse=True):
    import py4hw
    with quiet():
        hw = py4hw.HWSystem()
        ws = [hw.wire('w%d' % k, 1) for k in range(n + 1)]
        idx = range(n - 1, -1, -1) if reverse else range(n)
        for k in idx:
            py4hw.Not(hw, 'n%d' % k, ws[k], ws[k + 1])
        ws[0].put(1)
        try:
            hw.getSimulator()
        except Exception as e:
            return 'raised', None
        return 'idle', [w.get() for w in ws]


def part_c(run, lengths, witness):
    for n in lengths:
        st, vals = reversed_chain(n)
        run.count()
        exp = [(1 + k) % 2 for k in range(n + 1)]
        if st != 'idle':
            run.violation('C04:acyclic-refused:reversed-chain-%d' % n, {'chain': n}, 'acyclic reversed chain of %d leaves refused' % n)
        elif vals != exp:
            run.violation('C04:off-fixpoint:reversed-chain', {'chain': n, 'vals': vals}, 'reversed chain settles to wrong values')
    if witness:
        st_f, _ = reversed_chain(witness, reverse=False)
        st_r, _ = reversed_chain(witness, reverse=True)
        run.count(2)
        if st_f == 'idle' and st_r == 'raised':
            run.violation('C04:acyclic-refused:passes>1000', {'chain': witness, 'forward': st_f, 'reversed': st_r},
                          'acyclic chain of %d Not gates: accepted when instantiated in dataflow order, refused '
                          '(Excessive loop count) when instantiated in reverse' % witness)
        elif st_f != 'idle':
            run.violation('C04:acyclic-refused:forward-chain', {'chain': witness}, 'forward chain refused')


def check(run):
    if run.tier == 'quick':
        part_a(run, 3, 1, ['And2', 'Not', 'BitsLSBF'], [2], 6)
        part_a(run, 2, 1, ['And2', 'Or2', 'Not', 'Buf', 'BitsLSBF', 'Constant'], [0, 1, 2, 3], 5)
        part_b(run, 1500, 150, [4, 5, 6, 8, 12])
        part_c(run, [3, 10, 50, 200], 1001)
        part_d(run, 400, [3, 4, 5, 6, 8])
    else:
        part_a(run, 3, 1, ['And2', 'Or2', 'Not', 'Buf', 'BitsLSBF', 'Constant'], [1, 2], 6)
        part_a(run, 4, 1, ['And2', 'Not'], [2], 7, mod=16)
        part_a(run, 4, 1, ['Not', 'BitsLSBF', 'Constant'], [1, 2], 7, mod=4)
        part_b(run, 12000, 1500, [4, 5, 6, 8, 12, 20, 30])
        part_c(run, [3, 10, 50, 200, 500, 999, 1000], 1001)
        part_d(run, 6000, [3, 4, 5, 6, 8, 12, 20])
    run.assumptions += ['wire values of the model are at most 2 bits; py4hw has no width-dependent path in the sorter',
                        'model MaxPasses is N+3 for exhaustive runs (TLC shows acyclic netlists need at most N+1 passes); '
                        'every cyclic netlist is additionally replayed on the real sorter with its limit of 1000']


def replay(run, path):
    rec = json.loads(open(path).read())
    w = rec['witness']
    if 'chain' in w:
        part_c(run, [], w['chain'])
        return
    net, v0 = w['net'], w['v0']
    status, order, vals, vals2, extra = real_outcome(net, v0) if 'origin' not in w or w['origin'] == 'random' else (None,) * 5
    print('replay: real outcome', status, order, vals)
    if 'model' in w:
        judge_real(run, net, v0, w['model'], 'replay')


def selftest(run):
    """negative controls: a corrupted recorded value and a corrupted order must be rejected by Trace_Sort"""
    rng = random.Random(1)
    net = random_net(rng, 5, 2, 0.0)
    v0 = [1, 2] + [0] * (len(net['width']) - 2)
    status, order, vals, vals2, extra = real_outcome(net, v0)
    bad = list(vals)
    bad[-1] ^= 1
    traces = [{'net': strip(net), 'v0': v0, 'status': status, 'order': order, 'vals': vals},
              {'net': strip(net), 'v0': v0, 'status': status, 'order': order, 'vals': bad},
              {'net': strip(net), 'v0': v0, 'status': 'raised', 'order': [], 'vals': []}]
    tf = run.scratch / 'st.json'
    tf.write_text(json.dumps(traces))
    res = run_tlc('Trace_Sort', 'CONSTANTS\n MaxPasses = 1000\nINIT Init\nNEXT Next\n', run.scratch / 'st',
                  env={'TRACE_FILE': str(tf)})
    got = {(r[0], r[1]) for r in res.records}
    ok = ('V', 1) not in got and ('V', 2) in got and ('V', 3) in got
    # model-level negative control: a sorter that stops after one pass must violate an invariant
    return ok
