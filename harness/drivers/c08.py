"""C08 Logic, selection and comparison blocks implement their truth tables exactly.

Every gate, bit-manipulation block, selector and comparator of the catalogue (harness/library.py) at every combination of port widths and
every constructor option is instantiated in real py4hw; its complete truth table (all input vectors at
small widths, boundary + seeded random vectors at 8/16/27 bits (integer references; 31..64 bits through LibraryWide)) is measured on the real simulator and
judged row by row by TLC against Library!CombRef (the documented integer operation reduced modulo
2^(output width)).  TLC also checks algebraic identities of the references themselves.
"""
from .. import combcheck

LEVEL = 'model_checking'
RULE = ('configurations = (block kind, port widths, constructor options); every configuration contributes its measured truth table '
        '(complete when it has at most 2^12..2^14 rows); distinct = distinct configurations judged; evaluations = table rows')
GROUP = 'logic'


def check(run):
    combcheck.sanity(run)
    if run.tier == 'quick':
        combcheck.run_group(run, GROUP, (1, 2, 3), 1 << 12, wide=(4, 8, 16))
    else:
        combcheck.run_group(run, GROUP, (1, 2, 3, 4, 5), 1 << 14, big=True, wide=(8, 13, 16, 27))
    if run.tier == 'quick':
        combcheck.run_x(run, GROUP, (1, 2, 3), 256)
        combcheck.run_wide(run, GROUP, [(32,), (33,), (64,), (16, 48)], 2, 40)
    else:
        combcheck.run_x(run, GROUP, (1, 2, 3, 4, 5), 1 << 12)
        combcheck.run_wide(run, GROUP, [(31,), (32,), (33,), (47,), (64,), (16, 48), (8, 33), (32, 64)], 12, 200)
    run.assumptions += ['values below 2^30 (TLC integers); multiplier operands at most 15 bits',
                        'Div/Mod/SignedDiv are not judged for a zero divisor; rotations not judged for amounts above the data width']


def replay(run, path):
    combcheck.replay_table(run, path)


def selftest(run):
    """a table with one corrupted output must be rejected; the untouched one accepted"""
    import json, random
    from .. import library
    rng = random.Random(3)
    cfg = [c for c in library.catalogue(None, widths=(2,), groups=(GROUP,)) if c['kind'] in ("Mux", "Comparator", "Xor2")]
    tabs = [combcheck.record_table(c, rng, 256)[0] for c in cfg[:3]]
    bad = json.loads(json.dumps(tabs[0]))
    bad['rows'][3][-1] ^= 1
    before = len(run.violations)
    combcheck.judge(run, tabs + [bad], cfg[:3] + [cfg[0]], 'st')
    ok = len(run.violations) == before + 1
    run.violations.clear()
    return ok
