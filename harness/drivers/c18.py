"""C18 A schematic shows the circuit that exists: every block once, wired as built.

Layout.tla states what a correct RESULT of placing and routing is (one symbol per child instance and per port, no two of
them overlapping or sharing a grid cell; for every used wire the nets drawn for it, with their pass-through and feedback
markers, form one connected figure touching the real driver pin and every real reader pin and no pin of another wire).
The 2400-line heuristic placer is not modelled.  Netlists come from (a) TLC: every netlist of the MC_Edge family (gates,
registers with enable/reset, feedback through registers) wrapped in a structural block with ports, (b) the structural
library blocks of the catalogue, (c) seeded compositions (fan-out, long forward edges, one child reading a wire on two
ports).  Schematic(obj, placeAndRoute=True) runs under a watchdog; objs / nets / symbol_matrix are projected to JSON and
judged by TLC (Trace_Layout).
"""
import json
import random
import signal

from .. import library, netlist, vdesigns
from ..common import quiet, MachineryError
from ..tlc import run_tlc
from . import c05

LEVEL = 'exploration'
RULE = ('structural blocks = netlists enumerated by TLC (MC_Edge family) wrapped in a block with ports + library structural blocks + seeded '
        'compositions; distinct = distinct (netlist) blocks whose schematic was placed, routed and judged; every one is non-trivial (has at '
        'least one used wire)')


class Timeout(Exception):
    pass


def _alarm(signum, frame):
    raise Timeout()


def project(obj, limit=60):
    """returns (N, L) or ('timeout'|'exception', msg)"""
    import numpy as np
    from py4hw.schematic import Schematic
    signal.signal(signal.SIGALRM, _alarm)
    signal.alarm(limit)
    import contextlib, io
    try:
        with quiet(), contextlib.redirect_stderr(io.StringIO()):
            sch = Schematic(obj, placeAndRoute=True)
    except Timeout:
        return 'timeout', 'place and route did not finish in %d s' % limit
    except Exception as e:
        return 'exception', '%s: %s' % (type(e).__name__, str(e)[:200])
    finally:
        signal.alarm(0)
    children = list(obj.children.values())
    cidx = {id(c): k + 1 for k, c in enumerate(children)}
    inidx = {id(p): k + 1 for k, p in enumerate(obj.inPorts)}
    outidx = {id(p): k + 1 for k, p in enumerate(obj.outPorts)}
    # netlist truth, from the live objects
    wires = []
    widx = {}

    def wid(w):
        if id(w) not in widx:
            widx[id(w)] = len(wires) + 1
            wires.append({'driver': [], 'readers': []})
        return widx[id(w)]
    for k, p in enumerate(obj.inPorts):
        wires[wid(p.wire) - 1]['driver'] = ['in', k + 1, '']
    for c in children:
        for p in c.outPorts:
            if p.wire is not None:
                wires[wid(p.wire) - 1]['driver'] = ['child', cidx[id(c)], p.name]
    for c in children:
        for p in c.inPorts:
            if p.wire is not None:
                wires[wid(p.wire) - 1]['readers'].append(['child', cidx[id(c)], p.name])
    for k, p in enumerate(obj.outPorts):
        wires[wid(p.wire) - 1]['readers'].append(['out', k + 1, ''])
    N = {'children': len(children), 'inports': len(obj.inPorts), 'outports': len(obj.outPorts), 'wires': wires}
    # layout, from the schematic
    cells = {}
    sm = sch.symbol_matrix
    for r in range(sm.shape[0]):
        for c in range(sm.shape[1]):
            if sm[r, c] is not None:
                cells[id(sm[r, c])] = (r, c)
    syms = []
    sidx = {}
    for s in sch.objs:
        cn = type(s).__name__
        o = getattr(s, 'obj', None)
        vk = {'PassthroughSymbol': 'pass', 'FeedbackStartSymbol': 'fbstart', 'FeedbackStopSymbol': 'fbstop'}.get(cn, '')
        if cn in ('PassthroughSymbol', 'FeedbackStartSymbol', 'FeedbackStopSymbol'):
            kind, ref = 'virtual', 0
        elif cn == 'MissingConnectionSymbol':
            kind, ref = 'missing', 0
        elif cn == 'InPortSymbol':
            kind, ref = 'in', inidx.get(id(o), -1)
        elif cn == 'OutPortSymbol':
            kind, ref = 'out', outidx.get(id(o), -1)
        else:
            kind, ref = 'child', cidx.get(id(o), -1)
        r, c = cells.get(id(s), (-1, -1))
        sidx[id(s)] = len(syms) + 1
        syms.append({'kind': kind, 'ref': ref, 'vk': vk, 'x': int(s.x), 'y': int(s.y), 'w': int(s.getWidth()), 'h': int(s.getHeight()), 'row': r, 'col': c})
    nets = []
    for n in sch.nets:
        if id(n.source) not in sidx or id(n.sink) not in sidx:
            nets.append({'wire': widx.get(id(n.wire), 0), 'src': 0, 'sport': '', 'dst': 0, 'dport': '', 'path': []})
            continue
        path = [[int(round(a)), int(round(b))] for a, b in zip(n.x or [], n.y or [])]
        nets.append({'wire': widx.get(id(n.wire), 0), 'src': sidx[id(n.source)], 'sport': getattr(n.sourcePort, 'name', '') or '',
                     'dst': sidx[id(n.sink)], 'dport': getattr(n.sinkPort, 'name', '') or '', 'path': path})
    if any(n['src'] == 0 for n in nets):
        return 'exception', 'a net refers to a symbol that is not in Schematic.objs'
    # positions of the real pins (symbol position + port offset), with the wire each pin belongs to
    pins = []
    for s_ in sch.objs:
        o = getattr(s_, 'obj', None)
        cn = type(s_).__name__
        try:
            if cn == 'InPortSymbol':
                dx, dy = s_.getPortSourcePos(o)
                pins.append({'wire': widx.get(id(o.wire), 0), 'x': int(round(s_.x + dx)), 'y': int(round(s_.y + dy))})
            elif cn == 'OutPortSymbol':
                dx, dy = s_.getPortSinkPos(o)
                pins.append({'wire': widx.get(id(o.wire), 0), 'x': int(round(s_.x + dx)), 'y': int(round(s_.y + dy))})
            elif id(o) in cidx:
                for p_ in o.inPorts:
                    dx, dy = s_.getPortSinkPos(p_)
                    pins.append({'wire': widx.get(id(p_.wire), 0), 'x': int(round(s_.x + dx)), 'y': int(round(s_.y + dy))})
                for p_ in o.outPorts:
                    dx, dy = s_.getPortSourcePos(p_)
                    pins.append({'wire': widx.get(id(p_.wire), 0), 'x': int(round(s_.x + dx)), 'y': int(round(s_.y + dy))})
        except Exception:
            pass
    return N, {'syms': syms, 'nets': nets, 'pins': pins}


def wrap(net, P):
    """a structural block with ports around a flat netlist (MC_Edge family): primary inputs become in ports, every leaf output an out port"""
    import py4hw
    hw = py4hw.HWSystem()

    class Blk(py4hw.Logic):
        def __init__(self, parent, name):
            super().__init__(parent, name)
    blk = Blk(hw, 'blk')
    wires = [hw.wire('w%d' % (k + 1), w) for k, w in enumerate(net['width'])]
    W = lambda i: wires[i - 1]
    for k in range(P):
        blk.addIn('i%d' % k, wires[k])
    for b, lf in enumerate(net['leaves']):
        k = lf['kind']
        ins = [W(i) for i in lf['ins']]
        o = W(lf['outs'][0])
        nm = 'u%d' % b
        if k in ('And2',):
            py4hw.And2(blk, nm, ins[0], ins[1], o)
        elif k == 'Not':
            py4hw.Not(blk, nm, ins[0], o)
        elif k == 'Mux2':
            py4hw.Mux2(blk, nm, ins[0], ins[1], ins[2], o)
        elif k == 'Reg':
            hasE, hasR, rv = lf['p']
            py4hw.Reg(blk, nm, ins[0], o, enable=ins[1] if hasE else None, reset=ins[2 if hasE else 1] if hasR else None, reset_value=rv)
        else:
            return None
    used = {i for lf in net['leaves'] for i in lf['ins']}
    for b, lf in enumerate(net['leaves']):
        blk.addOut('o%d' % b, W(lf['outs'][0]))
    return blk


def judge(run, cases, metas, tag):
    for c0 in range(0, len(cases), 500):
        part = cases[c0:c0 + 500]
        tf = run.scratch / ('%s_%d.json' % (tag, c0))
        tf.write_text(json.dumps(part))
        res = run_tlc('Trace_Layout', 'INIT Init\nNEXT Next\n', run.scratch / ('%s_%d' % (tag, c0)), env={'TRACE_FILE': str(tf)}, timeout=3000)
        run.add_tlc(res)
        seen = set()
        for r in res.records:
            tid = r[1] + c0
            seen.add(tid)
            # a child that reads the wire it drives makes insertFeedback abort placeAndRoute half way (known finding): every other
            # net of that drawing is left unrouted too, so all findings of such a design belong to that root cause
            selfy = any(w_['driver'] and w_['driver'][0] == 'child' and any(rd[0] == 'child' and rd[1] == w_['driver'][1] for rd in w_['readers'])
                        for w_ in part[r[1] - 1]['N']['wires'])
            for f in r[2]:
                cls = 'self-feedback' if selfy else metas[tid - 1]['class']
                if f[0] in ('pin-not-touched', 'wire-figure-not-connected', 'foreign-pin-touched', 'routed-through-foreign-pin',
                            'drawn-figure-in-pieces', 'pin-off-the-drawn-figure'):
                    w = part[r[1] - 1]['N']['wires'][f[1] - 1]
                    if w['driver'] and w['driver'][0] == 'child' and any(rd[0] == 'child' and rd[1] == w['driver'][1] for rd in w['readers']):
                        cls = 'self-feedback'       # a child reading the wire it drives itself (register q wired to its own d)
                sig = 'C18:self-feedback:%s' % f[0] if cls == 'self-feedback' else 'C18:%s:%s' % (f[0], cls)
                run.violation(sig, {'block': metas[tid - 1], 'finding': f, 'case': part[r[1] - 1]},
                              'schematic of %s: %s (%s)' % (metas[tid - 1]['name'], f[0], f[1]))
        if len(seen) != len(part):
            raise MachineryError('Trace_Layout judged %d of %d layouts' % (len(seen), len(part)))
        tf.unlink()
    run.cov['traces_validated_against_impl'] += len(cases)


def collect(run, blocks, cases, metas):
    for meta, obj in blocks:
        run.count()
        out = project(obj)
        if isinstance(out[0], str):
            run.violation('C18:%s:%s' % (out[0], meta['class']), {'block': meta, 'error': out[1]},
                          'schematic of %s: %s (%s)' % (meta['name'], out[0], out[1]))
            continue
        N, L = out
        if not any(w['driver'] and w['readers'] for w in N['wires']):
            continue
        cases.append({'N': N, 'L': L})
        metas.append(meta)
        run.nontrivial(json.dumps(N, sort_keys=True) + meta['name'])


def tlc_netlists(run, n, shapes, cap, mod):
    recs = c05.mc_edge(run, 'lay', N=n, P=2, WD=1, shapes=shapes, rvs=[0], gated=False, invecs=[[0, 0]], cycles=1, maxn=1, mod=mod)
    seen = set()
    out = []
    for r in recs:
        _, kinds, ins, ps, doms_of, doms, hist, vorder = r
        key = json.dumps([kinds, ins, ps])
        if key in seen:
            continue
        seen.add(key)
        net = {'width': [1] * (2 + len(kinds)), 'leaves': [{'kind': kinds[b], 'ins': ins[b], 'outs': [3 + b], 'p': ps[b]} for b in range(len(kinds))]}
        with quiet():
            blk = wrap(net, 2)
        if blk is not None:
            out.append(({'name': 'tlc-netlist %s' % key, 'class': 'tlc-netlist'}, blk))
        if len(out) >= cap:
            break
    return out


def library_blocks(rng, widths, frac):
    out = []
    with quiet():
        for cfg in library.catalogue(rng, widths=widths):
            if 'alias' in cfg['c']:
                continue        # two block ports on one wire: the netlist record has one driving pin per wire
            if rng.random() > frac:
                continue
            try:
                inst = library.instantiate(cfg)
            except library.Skip:
                continue
            kids = [c for n, c in inst['hw'].children.items()]
            if len(kids) == 1 and kids[0].isStructural():
                out.append(({'name': cfg['name'], 'class': 'library:' + cfg['kind']}, kids[0]))
    return out


def compositions(rng, count):
    out = []
    with quiet():
        for k in range(count):
            try:
                d = vdesigns.composite(rng, hostile=False, alias=(k % 3 == 0))
            except Exception:
                continue
            out.append(({'name': 'composition #%d' % k, 'class': 'composition'}, d['top']))
    return out


def layered(rng, count):
    """layered netlists: 3-5 columns of 1-4 gates, inputs taken from ANY earlier column (long forward edges spanning several
    columns, fan-out), plus accumulator-style feedback (a register in an early column fed from a later one)"""
    import py4hw
    out = []
    with quiet():
        for k in range(count):
            hw = py4hw.HWSystem()

            class Blk(py4hw.Logic):
                def __init__(self, parent, name):
                    super().__init__(parent, name)
            blk = Blk(hw, 'blk')
            w = 4
            a = blk.addIn('a', hw.wire('a', w))
            b = blk.addIn('b', hw.wire('b', w))
            layers = [[a, b]]
            pending = []            # feedback registers: (q wire) waiting for a d from a later layer
            n = 0
            for li in range(rng.randint(3, 5)):
                cur = []
                for _ in range(rng.randint(1, 4)):
                    n += 1
                    src = lambda: rng.choice(layers[rng.choice([-1, -1, rng.randrange(len(layers))])])
                    r = blk.wire('t%d' % n, w)
                    kind = rng.choice(['and', 'not', 'add', 'or', 'fbadd'])
                    if kind == 'and':
                        py4hw.And2(blk, 'u%d' % n, src(), src(), r)
                    elif kind == 'or':
                        py4hw.Or2(blk, 'u%d' % n, src(), src(), r)
                    elif kind == 'not':
                        py4hw.Not(blk, 'u%d' % n, src(), r)
                    elif kind == 'add':
                        py4hw.Add(blk, 'u%d' % n, src(), src(), r)
                    else:
                        q = blk.wire('q%d' % n, w)
                        py4hw.Add(blk, 'u%d' % n, q, src(), r)
                        py4hw.Reg(blk, 'r%d' % n, r, q)
                    cur.append(r)
                layers.append(cur)
            fin = blk.wire('fin', w)
            py4hw.And2(blk, 'fin', rng.choice(layers[1]), rng.choice(layers[-1]), fin)
            blk.addOut(rng.choice(['r', 'fin', 'u1']), fin)      # a port may be called like an instance
            used = {id(p.wire) for c in blk.children.values() for p in c.inPorts} | {id(fin)}
            for li, layer in enumerate(layers[1:]):
                for j, wv in enumerate(layer):
                    if id(wv) not in used and rng.random() < 0.25:      # few ports: the port columns must not always be the tallest
                        blk.addOut('o%d_%d' % (li, j), wv)
            out.append(({'name': 'layered #%d' % k, 'class': 'layered'}, blk))
    return out


def bypass_feedback(rng, count):
    """structured family from the quantifier: an accumulator loop (adder -> register -> adder) sitting in the same column as a gate
    whose output skips s columns (long forward edge), after a chain of p gates, with optional extra fan-out"""
    import py4hw
    out = []
    with quiet():
        for k in range(count):
            p_, s_, extra = rng.randint(0, 2), rng.randint(1, 3), rng.randint(0, 2)
            order = rng.random() < 0.5
            hw = py4hw.HWSystem()

            class Blk(py4hw.Logic):
                def __init__(self, parent, name):
                    super().__init__(parent, name)
            blk = Blk(hw, 'blk')
            w = 4
            cur = blk.addIn('a', hw.wire('a', w))
            for i in range(p_ + 1):
                nxt = blk.wire('c%d' % i, w)
                py4hw.Not(blk, 'c%d' % i, cur, nxt)
                cur = nxt
            x, q, d = blk.wire('x', w), blk.wire('q', w), blk.wire('d', w)

            def mk_x():
                py4hw.Not(blk, 'X', cur, x)

            def mk_add():
                py4hw.Add(blk, 'add', q, cur, d)
            (mk_x(), mk_add()) if order else (mk_add(), mk_x())
            py4hw.Reg(blk, 'reg', d, q)
            if rng.random() < 0.4:
                blk.addOut('reg', d)               # an output port called like the instance that reads the same wire
            t = d
            for i in range(s_):
                nxt = blk.wire('s%d' % i, w)
                py4hw.Not(blk, 's%d' % i, t, nxt)
                t = nxt
            r = blk.wire('r', w)
            py4hw.And2(blk, 'fin', x, t, r)
            blk.addOut('r', r)
            for i in range(extra):
                e = blk.wire('e%d' % i, w)
                py4hw.Or2(blk, 'e%d' % i, rng.choice([x, cur, d]), rng.choice([q, t]), e)
                blk.addOut('e%d' % i, e)
            out.append(({'name': 'bypass+feedback p=%d s=%d extra=%d order=%s' % (p_, s_, extra, order), 'class': 'bypass-feedback'}, blk))
    return out


def multi_output(rng, count):
    """a child with several outputs (bit splitter, comparator) that drives two or more inputs of ONE sink through different wires,
    the sink lying one to four columns further right (behind a chain hanging on another of the outputs)"""
    import py4hw
    out = []
    with quiet():
        for k in range(count):
            hw = py4hw.HWSystem()

            class Blk(py4hw.Logic):
                def __init__(self, parent, name):
                    super().__init__(parent, name)
            blk = Blk(hw, 'blk')
            w = rng.choice([2, 3, 4])
            a = blk.addIn('a', hw.wire('a', w))
            b = blk.addIn('b', hw.wire('b', w))
            src = rng.choice(['bits', 'cmp'])
            if src == 'bits':
                outs = [blk.wire('b%d' % i, 1) for i in range(w)]
                py4hw.BitsLSBF(blk, 'bits', a, outs)
            else:
                outs = [blk.wire(n, 1) for n in ('gt', 'eq', 'lt')]
                py4hw.Comparator(blk, 'cmp', a, b, outs[0], outs[1], outs[2])
            depth = rng.randint(0, 3)
            c = outs[0]
            for i in range(depth):
                nxt = blk.wire('c%d' % i, 1)
                py4hw.Not(blk, 'c%d' % i, c, nxt)
                c = nxt
            r = blk.wire('r', 1)
            others = outs[1:]
            rng.shuffle(others)
            kind = rng.choice(['mux', 'and3', 'and2'])
            if kind == 'mux' and len(others) >= 2:
                py4hw.Mux2(blk, 'sink', c, others[0], others[1], r)
            elif kind == 'and3' and len(others) >= 2:
                py4hw.And(blk, 'sink', [others[0], c, others[1]], r)
            else:
                t = blk.wire('t', 1)
                py4hw.And2(blk, 'pre', others[0], c, t)
                py4hw.And2(blk, 'sink', t, others[-1], r)
            blk.addOut('r', r)
            if rng.random() < 0.5:
                blk.addOut('o', outs[-1])
            out.append(({'name': 'multi-output %s depth=%d sink=%s' % (src, depth, kind), 'class': 'multi-output'}, blk))
    return out


def inputless(rng, count):
    """structural blocks WITHOUT input ports (free-running counters, pattern generators): the first column of instances reads
    wires driven from later columns"""
    import py4hw
    out = []
    with quiet():
        for k in range(count):
            hw = py4hw.HWSystem()

            class Blk(py4hw.Logic):
                def __init__(self, parent, name):
                    super().__init__(parent, name)
            blk = Blk(hw, 'blk')
            w = 4
            loops = rng.randint(1, 2)
            last = None
            for j in range(loops):
                one, d, q = blk.wire('one%d' % j, w), blk.wire('d%d' % j, w), blk.wire('q%d' % j, w)
                py4hw.Constant(blk, 'k%d' % j, rng.choice([1, 3]), one)
                src = q
                for i in range(rng.randint(0, 2)):
                    nxt = blk.wire('n%d_%d' % (j, i), w)
                    py4hw.Not(blk, 'n%d_%d' % (j, i), src, nxt)
                    src = nxt
                if last is not None and rng.random() < 0.5:
                    t = blk.wire('x%d' % j, w)
                    py4hw.Xor2(blk, 'x%d' % j, src, last, t)
                    src = t
                py4hw.Add(blk, 'add%d' % j, src, one, d)
                py4hw.Reg(blk, 'reg%d' % j, d, q)
                blk.addOut('q%d' % j, q)
                if rng.random() < 0.5:
                    blk.addOut('reg%d' % j, d)         # an output port called like the instance that reads the same wire
                last = q
            out.append(({'name': 'no input ports: %d counter loop(s) #%d' % (loops, k), 'class': 'inputless'}, blk))
    return out


# netlists that once exposed a defect (see known_findings.json): always part of the check, whatever TLC samples
REGRESSIONS = [
    [["And2", "And2", "Reg"], [[1, 5], [3, 3], [4]], [[], [], [0, 0, 0]]],        # same wire on two pins of the sink, backward edge
    [["Not", "Not", "Not", "Mux2"], [[1], [3], [4], [5, 3, 3]], [[], [], [], []]],  # same, long forward edge from a child
    [["Not", "Not", "Mux2"], [[1], [3], [4, 2, 2]], [[], [], []]],                  # same, long forward edge from a port
    [["Mux2", "Reg"], [[1, 4, 4], [3]], [[], [0, 0, 0]]],
    [["And2", "Reg", "Reg"], [[5, 5], [3], [4]], [[], [0, 0, 0], [0, 0, 0]]],
]


def regression_netlists():
    out = []
    for kinds, ins, ps in REGRESSIONS:
        net = {'width': [1] * (2 + len(kinds)), 'leaves': [{'kind': kinds[b], 'ins': ins[b], 'outs': [3 + b], 'p': ps[b]} for b in range(len(kinds))]}
        with quiet():
            blk = wrap(net, 2)
        out.append(({'name': 'tlc-netlist %s' % json.dumps([kinds, ins, ps]), 'class': 'tlc-netlist'}, blk))
    return out


def check(run):
    rng = random.Random(run.seed + 18)
    cases, metas = [], []
    if run.tier == 'quick':
        blocks = tlc_netlists(run, 3, ['Reg', 'RegE', 'And2', 'Not'], 120, 3)
        blocks += library_blocks(rng, (2, 3), 0.08)
        blocks += compositions(rng, 40)
        blocks += layered(rng, 150)
        blocks += bypass_feedback(rng, 40)
        blocks += multi_output(rng, 40)
        blocks += inputless(rng, 20)
    else:
        blocks = tlc_netlists(run, 3, ['Reg', 'RegE', 'And2', 'Not', 'Mux2'], 4000, 1)
        blocks += library_blocks(rng, (1, 2, 3, 4), 0.6)
        blocks += compositions(rng, 1500)
        blocks += layered(rng, 5000)
        blocks += bypass_feedback(rng, 400)
        blocks += multi_output(rng, 600)
        blocks += inputless(rng, 300)
    blocks += regression_netlists()
    collect(run, blocks, cases, metas)
    if not cases:
        raise MachineryError('no layouts recorded')
    judge(run, cases, metas, 'lay')
    run.sample({'block': metas[0]['name'], 'netlist': cases[0]['N'], 'symbols': cases[0]['L']['syms'][:4], 'nets': cases[0]['L']['nets'][:4]})
    run.assumptions += ['the placement algorithm is not modelled: only its results are judged; termination is a 60 s watchdog observation',
                        'pixel boxes come from LogicSymbol.x/y/getWidth/getHeight, grid cells from Schematic.symbol_matrix']


def replay(run, path):
    rec = json.loads(open(path).read())
    w = rec['witness']
    print(w.get('finding'), w['block'])
    if 'case' in w:
        judge(run, [w['case']], [w['block']], 'replay')
    run.count()
    run.nontrivial('r1')
    run.nontrivial('r2')


def selftest(run):
    rng = random.Random(2)
    blocks = compositions(rng, 6)
    cases, metas = [], []
    collect(run, blocks, cases, metas)
    run.violations.clear()
    good = cases[0]
    bad = json.loads(json.dumps(good))
    bad['L']['nets'] = bad['L']['nets'][1:]                  # a net lost
    bad2 = json.loads(json.dumps(good))
    real = [s for s in bad2['L']['syms'] if s['kind'] == 'child']
    if len(real) >= 2:
        real[1]['x'], real[1]['y'], real[1]['row'], real[1]['col'] = real[0]['x'], real[0]['y'], real[0]['row'], real[0]['col']
    before = len(run.violations)
    judge(run, [good, bad, bad2], [metas[0]] * 3, 'st')
    sigs = [v['signature'] for v in run.violations]
    ok = any('pin-not-touched' in s or 'not-connected' in s for s in sigs) and any('overlap' in s for s in sigs)
    run.violations.clear()
    return ok
