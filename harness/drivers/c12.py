"""C12 Number-format helpers are bit-exact and arithmetically exact.

FloatFmt.tla specifies the IEEE-754 binary formats parametrically (EW, MW) over exact dyadic rationals (limb vectors:
53-bit mantissas, 106-bit products, sums across 100-bit exponent gaps are exact) and is self-checked exhaustively by TLC on
small formats (Encode(Decode(b)) = b, monotonicity, exact add/mul identities).  The helpers of py4hw.helper are called on:
ALL 2^16 half-precision patterns; for single and double the case table (every exponent field value for single, every 16th
plus the neighbourhood of each class boundary for double) x boundary mantissa patterns x both signs, zeros, subnormal
boundaries, largest finite values, infinities; operand pairs for add/sub/mul/compare with exponent gaps 0..60; all values at
widths 1..8 for two's complement and sign extension; all operand pairs of small fixed-point formats.  Every result is
logged as parts / limbs and recomputed by TLC (Trace_Float).  The platform encoding (struct) is logged as an extra source:
a disagreement between struct and FloatFmt is a machinery failure, not a finding.
"""
import json
import math
import random
import struct

from ..common import quiet, MachineryError
from ..tlc import run_tlc
from ..vparse import limbs

LEVEL = 'exploration'
RULE = ('cases = (helper function, operand(s)) from the structured table described in the check; distinct = distinct (operation, operands) '
        'rows whose result was recomputed by TLC; non-trivial = every row (NaN patterns are excluded by the statement)')

FMT = {'hp': (5, 10), 'sp': (8, 23), 'dp': (11, 52)}


def dyadic_of_float(f):
    """exact value of a Python float as [s, m, e] (m odd or 0)"""
    if math.isinf(f):
        return {'sp': 'inf', 's': 1 if f > 0 else -1}
    if math.isnan(f):
        return {'sp': 'nan', 's': 1}
    s = -1 if math.copysign(1, f) < 0 else 1
    n, d = abs(f).as_integer_ratio()
    e = -(d.bit_length() - 1)
    return norm(s, n, e)


def norm(s, m, e):
    if m == 0:
        return {'s': s, 'm': [0], 'e': 0}
    while m % 2 == 0:
        m //= 2
        e += 1
    return {'s': s, 'm': limbs(m), 'e': e}


def dyadic_of_fpnum(x):
    if x.nan:
        return {'sp': 'nan', 's': 1}
    if x.infinity:
        return {'sp': 'inf', 's': 1 if x.s == 1 else -1}
    s, e, m, p = x.components()
    if p <= 0 or (p & (p - 1)) != 0 or m < 0:
        return {'sp': 'nan', 's': 1}
    return norm(1 if s == 1 else -1, m, e - (p.bit_length() - 1))


def fields(bits, fmt):
    ew, mw = FMT[fmt]
    return (bits >> (ew + mw)) & 1, (bits >> mw) & ((1 << ew) - 1), bits & ((1 << mw) - 1)


def platform_float(bits, fmt):
    if fmt == 'hp':
        return struct.unpack('>e', struct.pack('>H', bits))[0]
    if fmt == 'sp':
        return struct.unpack('>f', struct.pack('>I', bits))[0]
    return struct.unpack('>d', struct.pack('>Q', bits))[0]


def pattern_rows(bits, fmt, rows, full=True):
    from py4hw.helper import FPNum, FloatingPointHelper as H
    ew, mw = FMT[fmt]
    sb, ef, mf = fields(bits, fmt)
    if ef == (1 << ew) - 1 and mf != 0:
        return          # NaN payloads are excepted by the statement
    base = {'op': 'decode', 'ew': ew, 'mw': mw, 'sb': sb, 'ef': ef, 'mf': limbs(mf)}
    f = platform_float(bits, fmt)
    rows.append(dict(base, src='struct', got=dyadic_of_float(f)))
    x = FPNum(bits, fmt)
    rows.append(dict(base, src='FPNum(bits)', got=dyadic_of_fpnum(x)))
    if not full:
        return
    rows.append(dict(base, src='FPNum(bits).to_float', got=dyadic_of_float(x.to_float())))
    y = FPNum(f)
    rows.append(dict(base, src='FPNum(float)', got=dyadic_of_fpnum(y)))
    # conversions back to bits
    for src, b2 in (('FPNum(bits).convert', x.convert(fmt)), ('FPNum(float).convert', y.convert(fmt))):
        s2, e2, m2 = fields(b2, fmt)
        rows.append({'op': 'encode', 'ew': ew, 'mw': mw, 'd': dyadic_of_float(f), 'src': src, 'got': [s2, e2, limbs(m2)]})
    # widening conversions are exact
    for wide in {'hp': ('sp', 'dp'), 'sp': ('dp',), 'dp': ()}[fmt]:
        b3 = x.convert(wide)
        s3, e3, m3 = fields(b3, wide)
        rows.append({'op': 'decode', 'ew': FMT[wide][0], 'mw': FMT[wide][1], 'sb': s3, 'ef': e3, 'mf': limbs(m3),
                     'src': 'FPNum(%s).convert(%s)' % (fmt, wide), 'got': dyadic_of_float(f)})
    if fmt == 'sp':
        rows.append(dict(base, src='ieee754_to_sp', got=dyadic_of_float(H.ieee754_to_sp(bits))))
        b4 = H.sp_to_ieee754(f)
        s4, e4, m4 = fields(b4, 'sp')
        rows.append({'op': 'encode', 'ew': ew, 'mw': mw, 'd': dyadic_of_float(f), 'src': 'sp_to_ieee754', 'got': [s4, e4, limbs(m4)]})
        s5, e5, m5 = H.sp_to_ieee754_parts(f)
        rows.append({'op': 'encode', 'ew': ew, 'mw': mw, 'd': dyadic_of_float(f), 'src': 'sp_to_ieee754_parts', 'got': [s5, e5, limbs(m5)]})
    if fmt == 'dp':
        rows.append(dict(base, src='ieee754_to_dp', got=dyadic_of_float(H.ieee754_to_dp(bits))))
        b4 = H.dp_to_ieee754(f)
        s4, e4, m4 = fields(b4, 'dp')
        rows.append({'op': 'encode', 'ew': ew, 'mw': mw, 'd': dyadic_of_float(f), 'src': 'dp_to_ieee754', 'got': [s4, e4, limbs(m4)]})


def mant_patterns(mw, rng, extra):
    top = 1 << (mw - 1)
    full = (1 << mw) - 1
    alt = int('01' * mw, 2) & full
    base = {0, 1, 2, top, top + 1, full, full - 1, alt}
    for _ in range(extra):
        base.add(rng.randrange(1 << mw))
    return sorted(base)


def case_table(fmt, rng, tier):
    ew, mw = FMT[fmt]
    emax = (1 << ew) - 1
    if fmt == 'sp':
        efs = range(0, emax + 1) if tier == 'thorough' else sorted(set(list(range(0, 6)) + list(range(120, 136)) + list(range(250, 256)) + [rng.randrange(256) for _ in range(20)]))
    else:
        efs = sorted(set(list(range(0, 34)) + list(range(1023 - 32, 1023 + 33)) + list(range(emax - 33, emax + 1)) +
                         list(range(0, emax, 16 if tier == 'thorough' else 128))))
    pats = []
    for ef in efs:
        for mf in mant_patterns(mw, rng, 8 if tier == 'thorough' else 1):
            for sb in (0, 1):
                pats.append((sb << (ew + mw)) | (ef << mw) | mf)
    return pats


def _mant(d):
    return sum(x << (15 * k) for k, x in enumerate(d['m']))


def _fits(dx, dy, op, limit=300):
    """the exact result of dx op dy needs at most `limit` bits of mantissa"""
    if 'sp' in dx or 'sp' in dy:
        return False
    mx, my = _mant(dx), _mant(dy)
    if op == 'mul':
        return mx.bit_length() + my.bit_length() <= limit
    if mx == 0 or my == 0:
        return True
    top = max(dx['e'] + mx.bit_length(), dy['e'] + my.bit_length())
    return top - min(dx['e'], dy['e']) + 1 <= limit


def arith_rows(rng, n, rows):
    from py4hw.helper import FPNum
    for _ in range(n):
        fmt = rng.choice(['hp', 'sp', 'dp'])
        ew, mw = FMT[fmt]
        e1 = rng.randrange(1, (1 << ew) - 1)
        gap = rng.choice([0, 0, 1, 2, 3, mw - 1, mw, mw + 1, rng.randrange(61)])
        e2 = max(0, min((1 << ew) - 2, e1 - gap))
        pick = lambda: rng.choice(mant_patterns(mw, rng, 2))
        b1 = (rng.randrange(2) << (ew + mw)) | (e1 << mw) | pick()
        b2 = (rng.randrange(2) << (ew + mw)) | (e2 << mw) | (pick() if rng.random() < 0.8 else (b1 & ((1 << mw) - 1)))
        x, y = FPNum(b1, fmt), FPNum(b2, fmt)
        dx, dy = dyadic_of_float(platform_float(b1, fmt)), dyadic_of_float(platform_float(b2, fmt))
        rows.append({'op': 'add', 'x': dx, 'y': dy, 'got': dyadic_of_fpnum(x.add(y))})
        rows.append({'op': 'sub', 'x': dx, 'y': dy, 'got': dyadic_of_fpnum(x.sub(y))})
        rows.append({'op': 'mul', 'x': dx, 'y': dy, 'got': dyadic_of_fpnum(x.mul(y))})
        rows.append({'op': 'cmp', 'x': dx, 'y': dy, 'got': x.compare(y)})
        rows.append({'op': 'cmp', 'x': dy, 'y': dx, 'got': y.compare(x)})
        # the same OBJECT on both sides (x + x, x - x, x * x, x ? x), a result used as both operands, and operands that
        # are still what they were after having been used
        rows.append({'op': 'add', 'x': dx, 'y': dx, 'got': dyadic_of_fpnum(x.add(x))})
        rows.append({'op': 'sub', 'x': dx, 'y': dx, 'got': dyadic_of_fpnum(x.sub(x))})
        rows.append({'op': 'mul', 'x': dx, 'y': dx, 'got': dyadic_of_fpnum(x.mul(x))})
        rows.append({'op': 'cmp', 'x': dx, 'y': dx, 'got': x.compare(x)})
        sq = x.mul(y)
        dsq = dyadic_of_fpnum(sq)
        rows.append({'op': 'sub', 'x': dsq, 'y': dsq, 'got': dyadic_of_fpnum(sq.sub(sq))})
        rows.append({'op': 'cmp', 'x': dx, 'y': dx, 'got': x.compare(FPNum(b1, fmt))})
        rows.append({'op': 'cmp', 'x': dy, 'y': dy, 'got': y.compare(FPNum(b2, fmt))})
        # chains: a product (a sum) used as operand of the next operation, five factors deep (every step is judged against the
        # exact product of the PREVIOUS result, so precision silently dropped at any depth shows)
        if _ % 4 == 0:
            acc, dacc = x, dx
            for step in range(5):
                f = FPNum(rng.choice([b1, b2, (1 << (ew + mw - 1)) - 1 - rng.randrange(1 << (mw // 2)), b1 ^ 1]) & ((1 << (ew + mw + 1)) - 1), fmt)
                if f.nan or f.infinity:
                    break
                df = dyadic_of_fpnum(f)
                if not _fits(dacc, df, 'mul' if step % 2 == 0 or fmt == 'dp' else 'add'):
                    break       # the exact result would not fit the limb vectors of FloatFmt (WB bits)
                nxt = acc.mul(f) if step % 2 == 0 or fmt == 'dp' else acc.add(f)
                rows.append({'op': 'mul' if step % 2 == 0 or fmt == 'dp' else 'add', 'x': dacc, 'y': df, 'got': dyadic_of_fpnum(nxt)})
                acc, dacc = nxt, dyadic_of_fpnum(nxt)
                if 'sp' in dacc:
                    break
        # values that went through a precision reduction keep their ordering
        z = FPNum(b1, fmt)
        z.reducePrecisionWithRounding(rng.choice([3, mw // 2, mw - 1]))
        dz = dyadic_of_fpnum(z)
        try:
            same = FPNum(z.to_float())          # the same value, freshly normalised
        except Exception:
            same = FPNum(1.0)
        for other, do in ((y, dy), (FPNum(float(2 ** rng.randrange(-3, 4))), None), (same, None)):
            if do is None:
                do = dyadic_of_fpnum(other)
            rows.append({'op': 'cmp', 'x': dz, 'y': do, 'got': z.compare(other)})
            rows.append({'op': 'cmp', 'x': do, 'y': dz, 'got': other.compare(z)})


def int_rows(rows, maxw):
    from py4hw.helper import IntegerHelper, signExtend, FixedPoint
    for w in range(1, maxw + 1):
        for v in range(-(1 << (w - 1)), 1 << (w - 1)):
            c2 = IntegerHelper.signed_to_c2(v, w)
            rows.append({'op': 'c2', 'w': w, 'v': v, 'c2': c2, 'back': IntegerHelper.c2_to_signed(c2, w)})
        for nw in (w, w + 1, w + 5):
            for v in range(0, 1 << w):
                rows.append({'op': 'sext', 'w': w, 'nw': nw, 'v': v, 'got': signExtend(v, w, nw)})
    for iw, fw in ((1, 1), (2, 1), (1, 3), (2, 2), (3, 1), (1, 4)):
        w = 1 + iw + fw
        for a in range(1 << w):
            for b in range(1 << w):
                fa, fb = FixedPoint.fromRawValue(1, iw, fw, a), FixedPoint.fromRawValue(1, iw, fw, b)
                rows.append({'op': 'fx', 'kind': 'add', 'w': w, 'fw': fw, 'a': a, 'b': b, 'got': fa.add(fb).v})
                rows.append({'op': 'fx', 'kind': 'sub', 'w': w, 'fw': fw, 'a': a, 'b': b, 'got': fa.sub(fb).v})
                rows.append({'op': 'fx', 'kind': 'mult', 'w': w, 'fw': fw, 'a': a, 'b': b, 'got': fa.mult(fb).v})
    # unsigned formats (no sign bit): the same modular rules on w = iw + fw bits
    for iw, fw in ((1, 1), (2, 1), (2, 2), (3, 1)):
        w = iw + fw
        for a in range(1 << w):
            for b in range(1 << w):
                fa, fb = FixedPoint.fromRawValue(0, iw, fw, a), FixedPoint.fromRawValue(0, iw, fw, b)
                rows.append({'op': 'fx', 'kind': 'add', 'w': w, 'fw': fw, 'a': a, 'b': b, 'got': fa.add(fb).v})
                rows.append({'op': 'fx', 'kind': 'sub', 'w': w, 'fw': fw, 'a': a, 'b': b, 'got': fa.sub(fb).v})


def judge(run, rows, tag):
    chunk = 400
    tables = [{'rows': rows[k:k + chunk]} for k in range(0, len(rows), chunk)]
    for c0 in range(0, len(tables), 160):
        part = tables[c0:c0 + 160]
        tf = run.scratch / ('%s_%d.json' % (tag, c0))
        tf.write_text(json.dumps(part))
        res = run_tlc('Trace_Float', 'INIT Init\nNEXT Next\n', run.scratch / ('%s_%d' % (tag, c0)), env={'TRACE_FILE': str(tf)}, timeout=3400)
        run.add_tlc(res)
        seen = set()
        for r in res.records:
            tid = r[1] + c0
            seen.add(tid)
            if r[0] == 'V':
                row = tables[tid - 1]['rows'][r[2] - 1]
                src = row.get('src', row['op'])
                if src == 'struct':
                    raise MachineryError('FloatFmt disagrees with the platform encoding on %s' % json.dumps(row)[:300])
                cls = value_class(row)
                run.violation('C12:%s:%s' % (src, cls), {'row': row, 'failing_rows_in_chunk': r[3]},
                              'helper %s disagrees with the format specification on %s' % (src, json.dumps(row)[:260]))
        if len(seen) != len(part):
            raise MachineryError('Trace_Float judged %d of %d tables' % (len(seen), len(part)))
        tf.unlink()
    run.cov['traces_validated_against_impl'] += len(tables)


def value_class(row):
    if row['op'] in ('decode',):
        ew = row['ew']
        name = {5: 'hp', 8: 'sp', 11: 'dp'}[ew]
        if row['ef'] == 0:
            return name + (':zero' if row['mf'] == [0] else ':subnormal')
        if row['ef'] == (1 << ew) - 1:
            return name + ':inf'
        return name + ':normal'
    if row['op'] == 'encode':
        name = {5: 'hp', 8: 'sp', 11: 'dp'}[row['ew']]
        d = row['d']
        if 'sp' in d:
            return name + ':inf'
        return name + (':zero' if d['m'] == [0] else ':finite')
    if row['op'] == 'fx':
        return '%s:w=%d,fw=%d' % (row['kind'], row['w'], row['fw'])
    return row['op']


def sanity(run):
    mod = ('---- MODULE FmtSanity ----\nEXTENDS FloatFmt\nASSUME FormatSanity(3, 2)\nASSUME FormatSanity(4, 3)\nVARIABLE x\nInit == x = 0\n'
           'Next == UNCHANGED x\n====\n')
    res = run_tlc('FmtSanity', 'INIT Init\nNEXT Next\n', run.scratch / 'fmtsanity', extra_modules={'FmtSanity': mod}, timeout=1200)
    run.add_tlc(res)


def check(run):
    rng = random.Random(run.seed + 12)
    sanity(run)
    rows = []
    with quiet():
        step = 1 if run.tier == 'thorough' else 5
        for bits in range(0, 1 << 16, step):
            pattern_rows(bits, 'hp', rows, full=(bits % (step * 8) == 0) or run.tier == 'thorough')
        for extra in (0x0000, 0x8000, 0x0001, 0x03FF, 0x0400, 0x7BFF, 0x7C00, 0xFC00, 0x3C00, 0x8001, 0x83FF):
            pattern_rows(extra, 'hp', rows)
        for fmt in ('sp', 'dp'):
            for bits in case_table(fmt, rng, run.tier):
                pattern_rows(bits, fmt, rows)
        arith_rows(rng, 300 if run.tier == 'quick' else 20000, rows)
        int_rows(rows, 8 if run.tier == 'quick' else 10)
    for r in rows:
        run.nontrivial(json.dumps(r, sort_keys=True)[:200])
    run.count(len(rows))
    judge(run, rows, 'flt')
    for k in (0, len(rows) // 3, len(rows) - 1):
        run.sample(rows[k])
    run.assumptions += ['NaN payloads are not judged; arithmetic operand pairs have exponent gaps up to 60 bits; FloatFmt is self-checked on '
                        'formats (3,2) and (4,3) and against the platform encoding on every pattern used']


def replay(run, path):
    rec = json.loads(open(path).read())
    print(json.dumps(rec['witness']['row']))
    judge(run, [rec['witness']['row']], 'replay')
    run.count()
    run.nontrivial('r1')
    run.nontrivial('r2')


def selftest(run):
    rows = []
    with quiet():
        pattern_rows(0x3C01, 'hp', rows)
    bad = json.loads(json.dumps(rows[1]))
    bad['got']['e'] += 1
    before = len(run.violations)
    judge(run, rows + [bad], 'st')
    ok = len(run.violations) - before == 1
    run.violations.clear()
    return ok
