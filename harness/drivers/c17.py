"""C17 The UART link delivers every byte once, unchanged and in order.

 A. MC_Uart: the real assembly (UARTSerializer -> line -> ClockGenerationAndRecovery -> UARTDeserializer) is built in
    py4hw for divider N (2N system clocks per bit), its leaf netlist is extracted and executed cycle by cycle by the
    Kernel (behavioural leaves transcribed in PrimSem) for every pair of bytes of an alphabet, every inter-byte gap
    0..4N+2 and several receiver patterns; TLC checks DeliveredIsPrefixOfAccepted, LineIs8N1 (independent software
    receiver), NoFramingError and the bounded-liveness AllDelivered.  Every behaviour is replayed on the real
    assembly; the recording is validated against the Kernel (MODEL-DRIFT) and judged at the property layer (Trace_Uart).
 B. Seeded random byte streams (up to 24 bytes) at N in {2,3,4,8,13}, random gaps, periodic receiver patterns.
"""
import json
import random

from .. import netlist, simrun
from ..common import quiet, MachineryError
from ..tlc import run_model, run_tlc

LEVEL = 'model_checking'
RULE = ('behaviours (byte pair, inter-byte gap, receiver pattern, divider) enumerated by TLC on the extracted netlist and replayed '
        'on the real assembly, plus seeded random byte streams; distinct = distinct (divider, bytes, gaps, receiver pattern) tuples')

IOS = ['line', 'sr', 'sv', 'sx', 'dr', 'dv', 'dx']


def build(n):
    import py4hw
    from py4hw.logic.protocol.uart.serdes import UARTSerializer, UARTDeserializer
    from py4hw.logic.protocol.uart.clock import ClockGenerationAndRecovery
    hw = py4hw.HWSystem()
    W = hw.wire
    io = dict(line=W('line'), sr=W('ser_ready'), sv=W('ser_valid'), sx=W('ser_v', 8), dr=W('des_ready'), dv=W('des_valid'), dx=W('des_v', 8))
    desync, txp, rxs = W('desync'), W('tx_clk_pulse'), W('rx_sample')
    ClockGenerationAndRecovery(hw, 'uart_clock', io['line'], desync, txp, rxs, 2 * n * 100, 100)
    UARTDeserializer(hw, 'des', io['line'], rxs, io['dr'], io['dv'], io['dx'], desync)
    UARTSerializer(hw, 'ser', io['sr'], io['sv'], io['sx'], txp, io['line'])
    return hw, io


def run_real(n, pokes, with_kernel_trace=False):
    """pokes: per cycle (sv, sx, dr).  Returns (property-level steps, kernel trace or None)"""
    with quiet():
        hw, io = build(n)
        net = wires = leaves = None
        if with_kernel_trace:
            net, wires = netlist.extract(hw)
            leaves = hw.allLeaves()
            idx = {id(w): k for k, w in enumerate(wires)}
        sim = hw.getSimulator()
        steps = []
        ksteps = [{'act': 'sim', 'status': 'idle', 'vals': [w.get() for w in wires]}] if with_kernel_trace else None
        from py4hw.base import Wire
        for sv, sx, dr in pokes:
            io['sv'].put(sv)
            io['sx'].put(sx)
            io['dr'].put(dr)
            sim.propagateAll()
            pre = [sv, sx, io['sr'].get(), dr, io['dv'].get(), io['dx'].get()]
            sim.clk(1)
            steps.append(pre + [io['line'].get()])
            if with_kernel_trace:
                for nm, v in (('sv', sv), ('sx', sx), ('dr', dr)):
                    ksteps.append({'act': 'poke', 'w': idx[id(io[nm])] + 1, 'v': v})
                ksteps.append({'act': 'clk', 'n': 1, 'vals': [w.get() for w in wires], 'st': [simrun.leaf_state(l) for l in leaves],
                               'total': sim.total_clks, 'prepared': len(Wire.prepared)})
    ktrace = {'net': simrun.strip(net), 'v0': [0] * len(wires), 'steps': ksteps} if with_kernel_trace else None
    return steps, ktrace


def judge(run, traces, metas, tag):
    CH = 400            # (a single JSON file of 3000 long link runs could not be read back by TLC's Json module)
    for c0 in range(0, len(traces), CH):
        part = traces[c0:c0 + CH]
        tf = run.scratch / ('%s_%d.json' % (tag, c0))
        tf.write_text(json.dumps(part))
        res = run_tlc('Trace_Uart', 'INIT Init\nNEXT Next\n', run.scratch / ('%s_%d' % (tag, c0)), env={'TRACE_FILE': str(tf)}, timeout=3000)
        run.add_tlc(res)
        done = set()
        for r in res.records:
            tid = r[1] + c0
            done.add(tid)
            if r[0] == 'V':
                m = dict(metas[tid - 1])
                m.update({'cycle': r[2], 'clause': r[3], 'observed': r[4]})
                run.violation('C17:%s:N=%s' % (r[3], 'min' if m['N'] == 2 else 'any'), m,
                              'UART link with %d clocks per bit: %s (bytes %s)' % (2 * m['N'], r[3], m['bytes']))
        if len(done) != len(part):
            raise MachineryError('Trace_Uart judged %d of %d traces' % (len(done), len(part)))
        tf.unlink()
    run.cov['traces_validated_against_impl'] += len(traces)


def part_a(run, n, alphabet, gaps, pats, kernel_every):
    with quiet():
        hw, io = build(n)
        net, wires = netlist.extract(hw)
        leaves = hw.allLeaves()
        sim = hw.getSimulator()
        order = [leaves.index(o) + 1 for o in sim.propagatables]
    ids = {id(w): k + 1 for k, w in enumerate(wires)}
    cfg = {'net': simrun.strip(net), 'order': order, 'io': {k: ids[id(io[k])] for k in IOS}}
    cf = run.scratch / ('uart_cfg_%d.json' % n)
    cf.write_text(json.dumps(cfg))
    maxt = 44 * n + 40 + max(gaps)
    traces, metas, ktraces = [], [], []

    def on(rec):
        if rec[0] != 'U':
            return
        _, queue, gap, rp, hist, sent, deliv = rec
        want_k = (len(traces) % kernel_every == 0)
        steps, kt = run_real(n, hist, want_k)
        traces.append({'half': n, 'complete': 1, 'offered': 2, 'steps': steps})
        metas.append({'N': n, 'bytes': sent, 'gap': gap, 'receiver_pattern': rp, 'pokes(sv,sx,dr)': hist[:40]})
        if kt:
            ktraces.append(kt)
        run.count(len(hist))
        run.nontrivial(json.dumps([n, sent, gap, rp]))
    consts = dict(MaxPasses=1000, Half=n, Alphabet=set(alphabet), Gaps=set(gaps), ReadyPats=set(pats), MaxT=maxt, Emit=True)
    res = run_model('MC_Uart', consts, run.scratch / ('mcuart%d' % n),
                    invariants=['OrderIsTopological', 'DeliveredIsPrefixOfAccepted', 'LineIs8N1', 'AllDelivered'],
                    env={'CFG_FILE': str(cf)}, timeout=3400, on_record=on)
    if res.violated:
        # the implementation-shaped model (= extracted netlist under Kernel semantics) breaks the property:
        # report only what the real code confirms (below); keep the model counterexample in the evidence
        run.note('model_counterexample_N%d' % n, res.violated)
        last = res.trace[-1][1] if res.trace else ''
        run.note('model_counterexample_state_N%d' % n, last[-600:])
    run.add_tlc(res)
    if not traces and not res.violated:
        raise MachineryError('MC_Uart emitted nothing')
    if traces:
        judge(run, traces, metas, 'uartA%d' % n)
        for kind, tid, line, clause, detail in simrun.validate(run, ktraces, name='uartK%d' % n):
            if kind == 'V':
                run.drift_note('UART assembly (N=%d): real wires differ from Kernel execution of the extracted netlist (%s)' % (n, clause))
        run.sample({'N': n, 'bytes': metas[0]['bytes'], 'gap': metas[0]['gap'], 'receiver_pattern': metas[0]['receiver_pattern'],
                    'first_cycles(sv,sx,sr,dr,dv,dx,line)': traces[0]['steps'][:12]})
    if res.violated:
        confirm_model_cex(run, n, res)


def confirm_model_cex(run, n, res):
    """TLC found a property violation on the extracted netlist: reproduce it on the real assembly"""
    from ..tlaval import parse_state
    stt = parse_state(res.trace[-1][1])
    hist = stt.get('hist', [])
    steps, _ = run_real(n, [tuple(h) for h in hist], False)
    tr = {'half': n, 'complete': 1 if res.violated == 'AllDelivered' else 0, 'offered': 2, 'steps': steps}
    judge(run, [tr], [{'N': n, 'bytes': stt.get('sent'), 'gap': stt.get('gap'), 'receiver_pattern': stt.get('rp'),
                       'pokes(sv,sx,dr)': hist[:60], 'model_invariant': res.violated}], 'uartCex%d' % n)


def pattern(kind, t, n=2):
    if kind == 1:
        return 1
    if kind == 2:
        return t % 2
    if kind == 3:
        return 1 if t % 3 == 0 else 0
    if kind == 4:
        return 1 if t % 5 < 2 else 0
    if kind == 5:
        return 1 if t % 7 in (0, 3) else 0
    if kind == 6:
        return 1 if t % 9 == 0 else 0
    return 1 if t % (4 * n + 1) == 0 else 0


def part_b(run, count, ns):
    rng = random.Random(run.seed + 17)
    traces, metas = [], []
    for _ in range(count):
        n = rng.choice(ns)
        k = rng.randint(1, 24 if n <= 4 else 6)
        data = [rng.choice([0x00, 0xFF, 0x55, 0xAA, 0x01, 0x80, rng.randrange(256), rng.randrange(256)]) for _ in range(k)]
        gaps = [rng.choice([0, 0, 1, 2, rng.randrange(4 * n + 3), rng.randrange(60 * n)]) for _ in range(k)]
        rp = rng.choice([1, 1, 2, 3, 4, 5, 6, 7, 7])
        # drive adaptively (the producer holds VALID until taken), recording the pokes
        with quiet():
            hw, io = build(n)
            sim = hw.getSimulator()
            steps = []
            pend = list(data)
            wait = 0
            idle_after = 0
            t = 0
            gi = 0
            while t < 60000:
                present = bool(pend) and wait == 0
                sv, sx, dr = (1, pend[0], pattern(rp, t, n)) if present else (0, 0, pattern(rp, t, n))
                io['sv'].put(sv)
                io['sx'].put(sx)
                io['dr'].put(dr)
                sim.propagateAll()
                pre = [sv, sx, io['sr'].get(), dr, io['dv'].get(), io['dx'].get()]
                took = sv == 1 and pre[2] == 1
                sim.clk(1)
                steps.append(pre + [io['line'].get()])
                if took:
                    pend.pop(0)
                    wait = gaps[gi]
                    gi += 1
                elif wait > 0:
                    wait -= 1
                if not pend:
                    idle_after += 1
                    if idle_after > 30 * n + 40:
                        break
                t += 1
        traces.append({'half': n, 'complete': 1, 'offered': k, 'steps': steps})
        metas.append({'N': n, 'bytes': data, 'gaps': gaps, 'receiver_pattern': rp})
        run.count(len(steps))
        run.nontrivial(json.dumps([n, data, gaps, rp]))
    judge(run, traces, metas, 'uartB')


def check(run):
    if run.tier == 'quick':
        part_a(run, 2, [0x00, 0xFF, 0xA3], range(0, 11), [1, 6], 6)
        part_a(run, 3, [0x55, 0x80], [0, 7, 14], [3, 7], 4)
        part_b(run, 140, [2, 2, 3, 4, 5, 6, 7, 8, 9, 13, 17])
    else:
        part_a(run, 2, [0x00, 0xFF, 0x55, 0xAA, 0x01, 0x80], range(0, 11), [1, 2, 3, 4, 6, 7], 20)
        part_a(run, 3, [0x00, 0xFF, 0x55, 0xAA, 0x01, 0x80], range(0, 15), [1, 2, 3, 6, 7], 20)
        part_a(run, 4, [0x00, 0xFF, 0x55, 0x80], range(0, 19, 2), [1, 3, 7], 20)
        part_a(run, 5, [0x00, 0xFF, 0xA5], [0, 1, 5, 11, 22], [1, 4], 20)
        part_b(run, 3000, [2, 2, 3, 4, 5, 6, 7, 8, 9, 10, 13, 16, 17, 33])
    run.assumptions += ['the receiver completes the two-phase hand-off before the next frame ends (periodic patterns with at least one ready cycle '
                        'per two bit times); a UART has no flow control',
                        'behavioural leaves (serializer, deserializer, clock-sync FSM) are transcribed in PrimSem; the structural part is the '
                        'netlist extracted from the live objects']


def replay(run, path):
    rec = json.loads(open(path).read())
    w = rec['witness']
    if 'pokes(sv,sx,dr)' in w:
        steps, _ = run_real(w['N'], [tuple(x) for x in w['pokes(sv,sx,dr)']], False)
        judge(run, [{'half': w['N'], 'complete': 0, 'offered': 2, 'steps': steps}], [w], 'replay')
    run.count()
    run.nontrivial('r1')
    run.nontrivial('r2')


def selftest(run):
    pokes = []
    with quiet():
        hw, io = build(2)
        sim = hw.getSimulator()
        pend = [0xA5]
        for t in range(90):
            sv, sx = (1, pend[0]) if pend else (0, 0)
            io['sv'].put(sv)
            io['sx'].put(sx)
            io['dr'].put(1)
            sim.propagateAll()
            took = sv and io['sr'].get() == 1
            pokes.append((sv, sx, 1))
            sim.clk(1)
            if took:
                pend.pop(0)
    steps, _ = run_real(2, pokes, False)
    good = {'half': 2, 'complete': 1, 'offered': 1, 'steps': steps}
    bad = json.loads(json.dumps(good))
    for s in bad['steps']:
        if s[4] == 1:
            s[5] ^= 0x10            # corrupted delivered byte
    bad2 = json.loads(json.dumps(good))
    flips = 0
    for s in bad2['steps'][20:]:
        if flips < 3:
            s[6] ^= 1
            flips += 1              # glitch on the line
    before = len(run.violations)
    judge(run, [good, bad, bad2], [{'N': 2, 'bytes': [0xA5]}] * 3, 'st')
    ok = len(run.violations) - before == 2
    run.violations.clear()
    return ok
