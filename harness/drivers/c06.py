"""C06 Wire values always fit their declared width.

 A. MC_Prim: TLC enumerates every primitive leaf x port widths x parameters (negative / oversized
    constants, reset values, stimulus, over-long shifts) x input values, runs it through the Kernel
    (simulator creation + 2 clock cycles) and checks TypeOK in every state, although PrimSem computes
    unmasked results.  Every case is replayed on the real primitive; observed at: after getSimulator(),
    after every clk(1), inside a simulator listener and inside a Waveform.
 B. Extreme stimulus on library composites (wide wires up to 64 bit, all-ones operands, negative and
    oversized pokes/constants), every reachable wire range-checked at every observation point.
 C. WireAPI: TLC model of Wire.put / prepare / settle under script-driven behavioural drivers that hand arbitrary integers
    to prepare() (0..MaxPrep times inside one clock call) and put(); one history per transition replayed on real Wires.
 D. The traces recorded by the C05/C10 machinery carry every wire after every call; Trace_Kernel
    rejects any out-of-range value (clause "range").
"""
import json
import random

from .. import netlist, simrun
from ..common import quiet, MachineryError
from ..tlc import run_model

LEVEL = 'model_checking'
RULE = ('primitive x widths x parameters x inputs enumerated by TLC (MC_Prim) and replayed on the real primitive; '
        'plus seeded extreme stimulus on composites; distinct = distinct (kind, widths, parameters, inputs) cases')

ALL_KINDS = ["And2", "Or2", "Not", "Buf", "ZeroExtend", "Bit", "BitsLSBF", "BitsMSBF", "Range", "ConcatenateMSBF",
             "ConcatenateLSBF", "Repeat", "Constant", "Mux2", "ShiftLeftConstant", "ShiftRightConstant",
             "RotateLeftConstant", "RotateRightConstant", "AddCarryIn", "Sub", "Mul", "SignedMul", "Div", "Mod",
             "SignExtend", "Reg", "SynchronousMemory", "Sequence"]


class Listener:
    def __init__(self, wires):
        self.wires = wires
        self.seen = []

    def simulatorUpdated(self):
        self.seen.append([w.get() for w in self.wires])


def in_range(v, w):
    return isinstance(v, int) and not isinstance(v, bool) and 0 <= v < (1 << w)


def replay_case(run, rec):
    import py4hw
    _, kind, width, ins, outs, p, pre, val, st, taint = rec
    net = {'width': width, 'leaves': [{'kind': kind, 'ins': ins, 'outs': outs, 'p': p, 'dom': 1 if kind in ('Reg', 'SynchronousMemory', 'Sequence') else 0}],
           'doms': [{'en': 0}]}
    v0 = pre[0][:len(ins)] if pre else val[:len(ins)]
    # the input values are the model's wire values on the input wires (never change: undriven)
    with quiet():
        hw, wires, objs = netlist.build(net)
        for k in range(len(ins)):
            wires[k].put(val[k])
        wv = py4hw.Waveform(hw, 'wv', list(wires))
        sim = hw.getSimulator()
        lis = Listener(wires)
        sim.addListener(lis)
        obs = [('sim', [w.get() for w in wires])]
        sim.clk(1)
        obs.append(('clk1', [w.get() for w in wires]))
        sim.clk(1)
        obs.append(('clk2', [w.get() for w in wires]))
        for k, s in enumerate(lis.seen):
            obs.append(('listener%d' % k, s))
        d = wv.getDict()
        for k in range(2):
            obs.append(('waveform%d' % k, [d[w][k] for w in wires]))
    case = {'kind': kind, 'width': width, 'p': p, 'inputs': val[:len(ins)]}
    run.count()
    run.nontrivial(json.dumps([kind, width, p, val[:len(ins)]]))
    for where, vals in obs:
        for k, v in enumerate(vals):
            if not in_range(v, width[k]):
                run.violation('C06:range:%s:%s' % (kind, where.rstrip('012')), {'case': case, 'where': where, 'wire': k + 1, 'value': repr(v),
                                                                           'width': width[k]},
                              'wire of width %d holds %r (%s, observed at %s)' % (width[k], v, kind, where))
                return
    if not taint:
        if obs[1][1] != pre[0] or obs[2][1] != val:
            run.drift_note('PrimSem differs from the real %s on in-range values (functional difference, judged by C07/C08/C09)' % kind)


def part_a(run, kinds, widths, pvals, shifts):
    recs = []
    consts = dict(MaxPasses=6, Kinds=set(kinds), Widths=set(widths), ParamVals=set(pvals), ShiftVals=set(shifts), Emit=True)
    n = [0]

    def on(rec):
        if rec[0] == 'P':
            replay_case(run, rec)
            n[0] += 1
            if n[0] % 20000 == 1:
                run.sample({'kind': rec[1], 'widths': rec[2], 'params': rec[5], 'inputs': rec[7][:len(rec[3])], 'values_after_2_cycles': rec[7]})
    res = run_model('MC_Prim', consts, run.scratch / 'prim', invariants=['TypeOK', 'EdgeAtomic', 'PreparedEmpty'],
                    timeout=3000, on_record=on)
    if res.violated:
        raise MachineryError('MC_Prim: invariant %s violated in the model\n%s' % (res.violated, res.trace[-1][1] if res.trace else ''))
    run.add_tlc(res)
    if n[0] == 0:
        raise MachineryError('MC_Prim emitted nothing')
    run.cov['traces_validated_against_impl'] += n[0]


# ------------------------------------------------------------------ part B
def extreme_values(w, rng):
    m = (1 << w) - 1
    return [0, 1, m, m - 1, 1 << (w - 1), (1 << (w - 1)) - 1, -1, -(1 << w), -(1 << w) - 5, (1 << w), (1 << w) + 3, (1 << (w + 7)) - 1,
            -(1 << (w + 3)) + 1, rng.randrange(-(1 << (w + 2)), 1 << (w + 2))]


def composites(rng):
    import py4hw
    out = []
    for w in (1, 2, 3, 8, 16, 33, 64):
        def mk(fn):
            hw = py4hw.HWSystem()
            fn(hw)
            return hw
        W = lambda hw, n, ww=None: hw.wire(n, ww if ww is not None else w)
        out.append(('Add', w, mk(lambda hw: py4hw.Add(hw, 'd', W(hw, 'a'), W(hw, 'b'), W(hw, 'r'), ci=W(hw, 'ci', 1), co=W(hw, 'co', 1)))))
        out.append(('Sub', w, mk(lambda hw: py4hw.Sub(hw, 'd', W(hw, 'a'), W(hw, 'b'), W(hw, 'r')))))
        out.append(('Neg', w, mk(lambda hw: py4hw.Neg(hw, 'd', W(hw, 'a'), W(hw, 'r')))))
        out.append(('Abs', w, mk(lambda hw: py4hw.Abs(hw, 'd', W(hw, 'a'), W(hw, 'r')))))
        out.append(('Mul', w, mk(lambda hw: py4hw.Mul(hw, 'd', W(hw, 'a'), W(hw, 'b'), W(hw, 'r')))))
        out.append(('SignedMul', w, mk(lambda hw: py4hw.SignedMul(hw, 'd', W(hw, 'a'), W(hw, 'b'), W(hw, 'r', max(1, w - 1))))))
        out.append(('Not-narrow', w, mk(lambda hw: py4hw.Not(hw, 'd', W(hw, 'a', w + 5), W(hw, 'r')))))
        out.append(('Nor', w, mk(lambda hw: py4hw.Nor(hw, 'd', [W(hw, 'a'), W(hw, 'b'), W(hw, 'c')], W(hw, 'r')))))
        out.append(('Xor2', w, mk(lambda hw: py4hw.Xor2(hw, 'd', W(hw, 'a'), W(hw, 'b'), W(hw, 'r')))))
        out.append(('ShiftLeft', w, mk(lambda hw: py4hw.ShiftLeft(hw, 'd', W(hw, 'a'), W(hw, 'n', 3), W(hw, 'r')))))
        out.append(('ShiftRightArith', w, mk(lambda hw: py4hw.ShiftRight(hw, 'd', W(hw, 'a'), W(hw, 'n', 3), W(hw, 'r'), arithmetic=True))))
        out.append(('Constant', w, mk(lambda hw: [py4hw.Constant(hw, 'k%d' % i, v, W(hw, 'r%d' % i)) for i, v in enumerate(extreme_values(w, rng))])))
        out.append(('Sequence', w, mk(lambda hw: py4hw.Sequence(hw, 's', extreme_values(w, rng), W(hw, 'r')))))
        out.append(('Counter', w, mk(lambda hw: py4hw.Counter(hw, 'd', W(hw, 'rst', 1), W(hw, 'inc', 1), W(hw, 'q')))))
        out.append(('Reg-narrow', w, mk(lambda hw: py4hw.Reg(hw, 'd', W(hw, 'a', w + 4), W(hw, 'q'), enable=W(hw, 'e', 2), reset=W(hw, 'r', 2),
                                                              reset_value=rng.choice([-1, (1 << w) + 1, -(1 << w) - 2])))))
        out.append(('RegChain', w, mk(lambda hw: [py4hw.Reg(hw, 'r1', W(hw, 'a'), W(hw, 'q1', max(1, w - 1)), reset_value=-3),
                                                  py4hw.Reg(hw, 'r2', hw._wires['q1'], W(hw, 'q2', w + 2))])))
        out.append(('Mem', w, mk(lambda hw: py4hw.SynchronousMemory(hw, 'd', W(hw, 'ra', 2), W(hw, 'wa', 2), W(hw, 'we', 1), W(hw, 'rd'), W(hw, 'wd', w + 3)))))
    return out


def part_b(run, rounds):
    import py4hw
    rng = random.Random(run.seed + 6)
    n = 0
    for kind, w, hw in composites(rng):
        with quiet():
            order, ids = netlist.all_wires(hw)
            driven = set()
            for lf in hw.allLeaves():
                for p in lf.outPorts:
                    driven.add(id(p.wire))
            und = [x for x in order if id(x) not in driven and not x.name.startswith('clk')]
            wv = py4hw.Waveform(hw, 'wv', list(order))
            try:
                sim = hw.getSimulator()
            except Exception as e:
                run.note('skipped_' + kind, str(e)[:80])
                continue
            lis = Listener(order)
            sim.addListener(lis)
            consts = [lf for lf in hw.allLeaves() if type(lf).__name__ == 'Constant']

            def scan(where):
                for x in order:
                    if not in_range(x.get(), x.getWidth()):
                        return run.violation('C06:range:%s:%s' % (kind, where), {'block': kind, 'width': w, 'wire': x.getFullPath(),
                                                                                'value': repr(x.get()), 'wire_width': x.getWidth()},
                                             'wire %s of width %d holds %r (%s)' % (x.getFullPath(), x.getWidth(), x.get(), where))
                return False
            scan('sim')
            for r in range(rounds):
                for x in und:
                    x.put(rng.choice(extreme_values(x.getWidth(), rng)))
                # the stimulus idiom of the library's own tests: the value of a Constant block is re-assigned between cycles
                for lf in consts:
                    if rng.random() < 0.6:
                        lf.value = rng.choice(extreme_values(lf.outPorts[0].wire.getWidth(), rng))
                if scan('poke'):
                    break
                sim.clk(rng.choice([1, 1, 2]))
                if scan('clk'):
                    break
                n += 1
            for s in lis.seen:
                for x, v in zip(order, s):
                    if not in_range(v, x.getWidth()):
                        run.violation('C06:range:%s:listener' % kind, {'block': kind, 'wire': x.getFullPath(), 'value': repr(v)},
                                      'listener saw %r on %s' % (v, x.getFullPath()))
                        break
            for x, data in wv.getDict().items():
                for v in data:
                    if not in_range(v, x.getWidth()):
                        run.violation('C06:range:%s:waveform' % kind, {'block': kind, 'wire': x.getFullPath(), 'value': repr(v)},
                                      'waveform recorded %r on %s' % (v, x.getFullPath()))
                        break
        run.nontrivial('B:%s:%d' % (kind, w))
    run.count(n)
    run.note('extreme_stimulus_cycles', n)


# ------------------------------------------------------------------ part C: the Wire API under script-driven drivers
_BLOCKS = {}


def script_blocks():
    """behavioural drivers that hand arbitrary integers to Wire.prepare (several times per clock call) and Wire.put"""
    if not _BLOCKS:
        import py4hw

        class ScriptSeq(py4hw.Logic):
            def __init__(self, parent, name, q, scripts):
                super().__init__(parent, name)
                self.q = self.addOut('q', q)
                self.scripts = scripts
                self.i = 0

            def clock(self):
                if self.i < len(self.scripts):
                    for v in self.scripts[self.i]:
                        self.q.prepare(v)
                self.i += 1

        class TableComb(py4hw.Logic):
            def __init__(self, parent, name, a, r, table):
                super().__init__(parent, name)
                self.a = self.addIn('a', a)
                self.r = self.addOut('r', r)
                self.table = table

            def propagate(self):
                self.r.put(self.table[self.a.get() % len(self.table)])      # index stays valid even if a is out of range
        _BLOCKS['seq'] = ScriptSeq
        _BLOCKS['comb'] = TableComb
    return _BLOCKS['seq'], _BLOCKS['comb']


def replay_wire(run, W, WR, table, hist, chunked, strict=False):
    import py4hw
    ScriptSeq, TableComb = script_blocks()
    with quiet():
        hw = py4hw.HWSystem()
        q = hw.wire('q', W)
        r = hw.wire('r', WR)
        ScriptSeq(hw, 'seq', q, [h['script'] for h in hist])
        TableComb(hw, 'tab', q, r, table)
        wv = py4hw.Waveform(hw, 'wv', [q, r])
        sim = hw.getSimulator()
        lis = Listener([q, r])
        sim.addListener(lis)
        obs = [('sim', [q.get(), r.get()])]
        if chunked:
            sim.clk(len(hist))
            obs += [None] * (len(hist) - 1) + [('clk', [q.get(), r.get()])]
        else:
            for h in hist:
                sim.clk(1)
                obs.append(('clk', [q.get(), r.get()]))
        seen = list(lis.seen)
        d = wv.getDict()
    exp = [[0, table[0] & ((1 << WR) - 1)]] + [[h['q'], h['r']] for h in hist]
    case = {'W': W, 'WR': WR, 'table': table, 'scripts': [h['script'] for h in hist], 'one_call': chunked}
    run.count()
    run.nontrivial(json.dumps(case))
    widths = [W, WR]
    points = [(o[0], k, o[1]) for k, o in enumerate(obs) if o is not None]
    points += [('listener', k + 1, s) for k, s in enumerate(seen)]
    for where, k, vals in points:
        for j, v in enumerate(vals):
            if not in_range(v, widths[j]):
                run.violation('C06:range:script-driver:%s' % where, {'case': case, 'cycle': k, 'wire': 'qr'[j], 'value': repr(v)},
                              'wire %s of width %d holds %r after a driver prepared/put %s (%s, cycle %d)'
                              % ('qr'[j], widths[j], v, case['scripts'][k - 1] if k else table[0], where, k))
                return
        if vals != exp[k] and strict:
            # C05: every prepared update becomes visible at the edge, the last one prepared wins, none is lost or carried over
            run.violation('%s:wire-api:%s' % (run.pid, where), {'case': case, 'cycle': k, 'seen': vals, 'expected': exp[k]},
                          'after the driver scripts %s the wires (q, r) show %s, the Wire model %s (%s, cycle %d)'
                          % (case['scripts'][:k], vals, exp[k], where, k))
            return
        if vals != exp[k]:
            run.drift_note('WireAPI: real wires show %s, the model %s (scripts %s): functional difference of prepare/settle, '
                           'judged by C05' % (vals, exp[k], case['scripts'][:k]))
            return
    for j, x in enumerate((q, r)):
        for v in d[x]:
            if not in_range(v, widths[j]):
                run.violation('C06:range:script-driver:waveform', {'case': case, 'wire': 'qr'[j], 'value': repr(v)},
                              'waveform recorded %r on %s' % (v, 'qr'[j]))
                return


def part_c(run, configs, maxprep, cycles, strict=False):
    for W, WR, vals in configs:
        rng = random.Random(run.seed + W * 7 + WR)
        table = [rng.choice(vals) for _ in range(1 << W)]
        table[0] = vals[0]
        n = [0]

        def on(rec):
            if rec[0] == 'W':
                replay_wire(run, W, WR, table, rec[1], chunked=(n[0] % 3 == 2), strict=strict)
                n[0] += 1
        res = run_model('WireAPI', dict(W=W, WR=WR, Vals=set(vals), MaxPrep=maxprep, Table=table, MaxCycles=cycles),
                        run.scratch / ('wire%d%d' % (W, WR)), invariants=['TypeOK'], view='View', timeout=1800, on_record=on)
        if res.violated:
            raise MachineryError('WireAPI: %s violated in the model' % res.violated)
        run.add_tlc(res)
        if n[0] == 0:
            raise MachineryError('WireAPI emitted nothing')
        run.cov['traces_validated_against_impl'] += n[0]
    run.note('wire_api_histories', 'one per transition of WireAPI (state = q, r, cycle)')


def check(run):
    if run.tier == 'quick':
        part_a(run, ALL_KINDS, [1, 2, 3], [-9, -5, -1, 0, 3, 9], [0, 1, 3, 5])
        part_b(run, 20)
        part_c(run, [(1, 2, [-3, -1, 0, 1, 2, 5]), (2, 1, [-9, -4, -1, 0, 3, 4, 7, 260]), (3, 3, [-8, -1, 7, 8, 9, 1023])], 2, 3)
    else:
        part_a(run, ALL_KINDS, [1, 2, 3, 4], [-17, -9, -5, -1, 0, 2, 7, 12, 16], [0, 1, 2, 3, 5])
        part_b(run, 300)
        part_c(run, [(1, 2, [-3, -1, 0, 1, 2, 5]), (2, 1, [-9, -4, -1, 0, 3, 4, 7, 260]), (3, 3, [-8, -1, 7, 8, 9, 1023]),
                     (4, 2, [-17, -16, -1, 0, 15, 16, 31, 65535, -65536])], 3, 4)
    run.assumptions += ['exhaustive part at widths 1-3; composites up to 64 bit by seeded extreme stimulus',
                        'every wire reachable through Logic._wires and ports is observed']


def replay(run, path):
    rec = json.loads(open(path).read())
    print(json.dumps(rec['witness'])[:600])
    check(run)


def selftest(run):
    """the spec's negative control: a Put that does not truncate must break TypeOK"""
    from ..tlc import run_tlc
    text = (run.scratch / 'x').as_posix()
    import re
    src = open(str(__import__('pathlib').Path(__file__).resolve().parents[2] / 'spec' / 'PrimSem.tla')).read()
    mut = src.replace('Put(x, w) == Trunc(x, w)', 'Put(x, w) == x')
    wd = run.scratch / 'neg'
    wd.mkdir()
    (wd / 'PrimSem.tla').write_text(mut)
    res = run_model('MC_Prim', dict(MaxPasses=6, Kinds={'Not', 'Constant'}, Widths={1, 2}, ParamVals={-5, 9}, ShiftVals={0}, Emit=False),
                    wd, invariants=['TypeOK'])
    return res.violated == 'TypeOK'
