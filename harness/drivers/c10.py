"""C10 A clock domain advances exactly when its enable is active.

 A. MC_Edge with Gated = TRUE: every small netlist with sequential leaves split over an ungated and a
    second domain whose enable is ANY wire (a primary input, a register of another domain, a register
    of the gated domain itself = self-gating, a combinational function of those), all enable/data
    histories, all driver and clockable visit orders.  Invariants GatedHold, EnableSampledBeforeEdge,
    EdgeAtomic (gated-transparent: an enabled domain behaves like an ungated one).  Every settled
    transition (sampled) is replayed on the real simulator with the visit order imposed.
 B. Hierarchies: random trees (depth <= 3) of structural containers with clock drivers placed on the
    top level, on containers and directly on leaves, 1-3 gated drivers, enables from primary inputs,
    from registers of the same and of other domains; library composites (Counter, Stack, DelayLine,
    ...) inside gated containers.  The expected domain of every leaf is computed by the generator
    itself (nearest ancestor with a driver), NOT read back from py4hw.  Runs are recorded under random
    visit orders and validated by TLC (Trace_Kernel) on the extracted netlist.
"""
import json
import random

from .. import netlist, simrun
from ..common import quiet, MachineryError
from . import c05

LEVEL = 'model_checking'
RULE = ('schedules (netlist, domain assignment, enable wire, input history, visit order) enumerated by TLC and replayed; '
        'plus seeded random hierarchies with drivers at every level; distinct = distinct (design, history, order) triples')


def gen_hierarchy(rng):
    """returns hw, dom_of_leaf (by id(leaf)), doms list [{'enw': Wire or None}]"""
    import py4hw
    hw = py4hw.HWSystem()
    w = rng.choice([1, 2, 3])
    prim = [hw.wire('in%d' % k, w) for k in range(2)]
    ens = [hw.wire('en%d' % k, rng.choice([1, 1, 2])) for k in range(2)]
    regouts = []           # (wire, domain index)
    doms = [{'drv': hw.clockDriver, 'enw': None}]
    later = []             # enables to be chosen after registers exist

    def new_driver():
        k = len(doms)
        mode = rng.choice(['prim', 'prim', 'reg', 'none'])
        enw = None
        if mode == 'prim':
            enw = rng.choice(ens)
        elif mode == 'reg' and regouts:
            enw = rng.choice(regouts)[0]
        elif mode == 'reg':
            enw = rng.choice(ens)
        # distinct drivers are distinct domains whatever they are called: half of them share one name (the reusable
        # sub-block that creates its own ClockDriver('gclk', ...) and is instantiated several times)
        # the base may be any driver created so far, gated or not: a domain follows ITS OWN enable (none = it always advances)
        drv = py4hw.ClockDriver(rng.choice(['gclk', 'g%d' % k]), base=rng.choice([d_['drv'] for d_ in doms]), enable=enw,
                                wire=hw.wire('clk_g%d' % k))
        doms.append({'drv': drv, 'enw': enw})
        return k

    dom_of = {}
    counter = [0]
    # in a third of the designs the drivers are attached only after the system has been given a simulator once
    # (getSimulator() again afterwards): the domain of a block is the nearest ancestor's driver at the time it is simulated
    late = rng.random() < 0.34
    pending = []

    def attach(obj, drv):
        if late:
            pending.append((obj, drv))
        else:
            obj.clockDriver = drv

    def fill(parent, depth, cur):
        nkids = rng.choice([1, 2, 3])
        for _ in range(nkids):
            counter[0] += 1
            nm = 'n%d' % counter[0]
            kind = rng.choice(['reg', 'reg', 'rege', 'container', 'container', 'counter', 'delay', 'stack', 'not'] if depth < 3
                              else ['reg', 'rege', 'not', 'counter'])
            src = rng.choice(prim + [x[0] for x in regouts if x[0].getWidth() == w] or prim)
            if kind == 'container':
                c = py4hw.Logic(parent, nm)
                d = cur
                if rng.random() < 0.5 and len(doms) < 4:
                    d = new_driver()
                    attach(c, doms[d]['drv'])
                before = len(hw.allLeaves())
                fill(c, depth + 1, d)
                if not c.children:
                    q = hw.wire('q_' + nm, w)
                    lf = py4hw.Reg(c, 'r', src, q)
                    dom_of[id(lf)] = d
                    regouts.append((q, d))
            elif kind in ('reg', 'rege'):
                q = hw.wire('q_' + nm, w)
                lf = py4hw.Reg(parent, nm, src, q, enable=rng.choice(ens) if kind == 'rege' else None,
                               reset_value=rng.choice([0, 0, 1]))
                d = cur
                if rng.random() < 0.3 and len(doms) < 4:
                    d = new_driver()
                    attach(lf, doms[d]['drv'])
                dom_of[id(lf)] = d
                regouts.append((q, d))
            elif kind == 'not':
                q = hw.wire('q_' + nm, w)
                py4hw.Not(parent, nm, src, q)
                regouts.append((q, -1)) if False else None
            else:
                d = cur
                c = None
                q = hw.wire('q_' + nm, w)
                if kind == 'counter':
                    c = py4hw.Counter(parent, nm, rng.choice(ens + [hw.wire('z_' + nm)]) if True else None, rng.choice(ens), q)
                elif kind == 'delay':
                    c = py4hw.DelayLine(parent, nm, src, rng.choice(ens), None, q, rng.choice([1, 2]))
                elif kind == 'stack':
                    c = py4hw.Stack_ShiftRegister(parent, nm, src, q, hw.wire('push_' + nm), hw.wire('pop_' + nm), None, None, 2)
                if rng.random() < 0.4 and len(doms) < 4:
                    d = new_driver()
                    attach(c, doms[d]['drv'])
                for lf in c.allLeaves():
                    if lf.isClockable():
                        dom_of[id(lf)] = d
                regouts.append((q, d))
    fill(hw, 1, 0)
    if late:
        hw.getSimulator()
        for obj, drv in pending:
            obj.clockDriver = drv
    return hw, dom_of, doms


def part_b(run, count, cycles):
    rng = random.Random(run.seed + 10)
    traces = []
    metas = []
    for t in range(count):
        with quiet():
            hw, dom_of, doms = gen_hierarchy(rng)
            try:
                net, wires = netlist.extract(hw)
            except netlist.Unsupported as e:
                run.note('unsupported', str(e))
                continue
            leaves = hw.allLeaves()
        ids = {id(w): k + 1 for k, w in enumerate(wires)}
        # domains as the GENERATOR placed them (independent of getObjectClockDriver)
        used = sorted({d for d in dom_of.values()})
        remap = {d: k + 1 for k, d in enumerate(used)}
        net['doms'] = [{'en': ids[id(doms[d]['enw'])] if doms[d]['enw'] is not None else 0} for d in used]
        for b, lf in enumerate(leaves):
            net['leaves'][b]['dom'] = remap[dom_of[id(lf)]] if id(lf) in dom_of else 0
        und = sorted(w for w in range(1, len(wires) + 1) if not any(w in l['outs'] for l in net['leaves'])
                     and not wires[w - 1].name.startswith('clk'))
        seqs = [b + 1 for b, l in enumerate(net['leaves']) if l['dom']]
        sched = []
        left = cycles
        while left > 0:
            for w in und:
                if rng.random() < 0.6:
                    sched.append(('poke', w - 1, rng.randrange(1 << net['width'][w - 1])))
            n = min(left, rng.choice([1, 1, 1, 2]))
            lorder = list(seqs)
            rng.shuffle(lorder)
            dorder = list(range(1, len(net['doms']) + 1))
            rng.shuffle(dorder)
            sched.append(('clk', n, dorder, lorder))
            left -= n
        tr = simrun.record(hw, wires, leaves, sched, net)
        traces.append(tr)
        metas.append({'net': net, 'hist': [list(s[:2]) if s[0] == 'clk' else list(s) for s in sched],
                      'vorder': 'hierarchy doms=%d' % len(net['doms'])})
        run.count()
        run.nontrivial(json.dumps([[l['kind'], l['ins'], l['dom']] for l in net['leaves']]) + json.dumps(sched[:6], default=str))
    c05.report(run, traces, metas, 'hierarchy')
    if traces:
        run.sample({'design': [[l['kind'], l['dom']] for l in metas[0]['net']['leaves']], 'doms': metas[0]['net']['doms'],
                    'schedule': metas[0]['hist'][:10]})


def check(run):
    if run.tier == 'quick':
        with run.stage('g1'):
            recs = c05.mc_edge(run, 'g1', N=2, P=1, WD=1, shapes=['Reg', 'RegE', 'Not'], rvs=[0, 1], gated=True,
                               invecs=[[0], [1]], cycles=3, maxn=2, mod=8)
            c05.replay_records(run, recs, 1, 1, 'mc-gated-2')
        with run.stage('g2'):
            recs = c05.mc_edge(run, 'g2', N=3, P=1, WD=1, shapes=['Reg', 'Not'], rvs=[0], gated=True,
                               invecs=[[0], [1]], cycles=2, maxn=1, mod=12)
            c05.replay_records(run, recs, 1, 1, 'mc-gated-3')
        with run.stage('b'):
            part_b(run, 600, 14)
    else:
        recs = c05.mc_edge(run, 'g1', N=2, P=2, WD=2, shapes=['Reg', 'RegE', 'Not'], rvs=[0, 1], gated=True,
                           invecs=[[0, 0], [1, 2], [2, 0], [0, 3]], cycles=3, maxn=2, mod=16)
        c05.replay_records(run, recs, 2, 2, 'mc-gated-2')
        recs = c05.mc_edge(run, 'g2', N=3, P=1, WD=1, shapes=['Reg', 'Not'], rvs=[0, 1], gated=True,
                           invecs=[[0], [1]], cycles=2, maxn=2, mod=32)
        c05.replay_records(run, recs, 1, 1, 'mc-gated-3')
        part_b(run, 8000, 30)
    run.assumptions += ['TLC model has two domains (one gated by an arbitrary wire); three or more domains and hierarchy '
                        'placements are covered by seeded random hierarchies',
                        'the expected domain of each leaf comes from the generator (nearest ancestor carrying a driver)']


replay = c05.replay


def selftest(run):
    """a trace in which a gated register changes while its enable was 0 must be rejected"""
    net = {'width': [1, 1, 1], 'leaves': [{'kind': 'Reg', 'ins': [1], 'outs': [3], 'p': [0, 0, 0], 'dom': 2}],
           'doms': [{'en': 0}, {'en': 2}]}
    with quiet():
        hw, wires, objs = netlist.build(net)
    tr = simrun.record(hw, wires, objs, [('poke', 0, 1), ('poke', 1, 0), ('clk', 1, None, None), ('poke', 1, 1), ('clk', 1, None, None)], net)
    good = json.loads(json.dumps(tr))
    bad = json.loads(json.dumps(tr))
    bad['steps'][3]['vals'][2] = 1      # q moved although enable was 0
    out = simrun.validate(run, [good, bad], name='st')
    return {o[1] for o in out if o[0] == 'V'} == {2} and good['steps'][3]['vals'][2] == 0 and good['steps'][5]['vals'][2] == 1
