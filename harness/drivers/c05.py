"""C05 Clock edges are atomic (also feeds C10 gating and C06 range through the same traces).

 A. MC_Edge: TLC explores every small netlist of sequential + combinational leaves, all input
    histories up to MaxCycles, all clk(n) splittings and ALL visit orders of drivers and
    clockables; invariants EdgeAtomic, PreparedEmpty, FixpointWhenIdle, IdleStable, TypeOK,
    GatedHold, EnableSampledBeforeEdge.  Every Settle transition is printed with its schedule
    and replayed on the real simulator with that visit order imposed; what the real code did is
    validated by TLC (Trace_Kernel) against the order-free reference.
 B. Library sequential composites and random register/memory networks: random histories,
    random permutations of clockDrivers/clockables before every call, random splittings;
    recorded and validated by Trace_Kernel on the extracted netlist.
"""
import itertools
import json
import random

from .. import netlist, simrun
from ..common import quiet, MachineryError
from ..tlc import run_model

LEVEL = 'model_checking'
RULE = ('schedules (netlist, input history, clk(n) splitting, visit order of drivers and clockables) enumerated by TLC '
        'and replayed on the real simulator, plus seeded random schedules on library composites; distinct = distinct '
        '(netlist, history, visit order) triples')

INVS = ['TypeOK', 'EdgeAtomic', 'PreparedEmpty', 'FixpointWhenIdle', 'IdleStable', 'GatedHold', 'EnableSampledBeforeEdge']


def mc_edge(run, name, **c):
    consts = dict(MaxPasses=6, N=c['N'], P=c['P'], WD=c['WD'], Shapes=set(c['shapes']), ResetVals=set(c['rvs']),
                  Gated=c['gated'], InVecs='{' + ', '.join('<<' + ', '.join(map(str, v)) + '>>' for v in c['invecs']) + '}',
                  MaxCycles=c['cycles'], MaxN=c.get('maxn', 2), Emit=True, EmitMod=c.get('mod', 1))
    res = run_model('MC_Edge', consts, run.scratch / name, invariants=INVS, view='View', timeout=6000)
    if res.violated:
        raise MachineryError('MC_Edge: invariant %s violated in the model\n%s' % (res.violated, res.trace[-1][1] if res.trace else ''))
    run.add_tlc(res)
    return [r for r in res.records if r[0] == 'S']


def replay_records(run, recs, P, WD, tag, max_traces=None):
    traces = []
    metas = []
    for r in recs:
        _, kinds, ins, ps, doms_of, doms, hist, vorder = r
        N = len(kinds)
        net = {'width': [WD] * (P + N),
               'leaves': [{'kind': kinds[b], 'ins': ins[b], 'outs': [P + b + 1], 'p': ps[b], 'dom': doms_of[b]} for b in range(N)],
               'doms': doms}
        dorder = [x[1] for x in vorder if x[0] == 'D']
        lorder = [x[1] for x in vorder if x[0] == 'L']
        sched = []
        clk_idx = [k for k, h in enumerate(hist) if h[0] == 'clk']
        for k, h in enumerate(hist):
            if h[0] == 'poke':
                for i, v in enumerate(h[1]):
                    sched.append(('poke', i, v))
            else:
                last = (k == clk_idx[-1])
                sched.append(('clk', h[1], dorder if last else None, lorder if last else None))
        with quiet():
            # every other replay gives the extra clock drivers the same name as the system one (names carry no meaning)
            hw, wires, objs = netlist.build(net, same_names=len(traces) % 2 == 1)
        tr = simrun.record(hw, wires, objs, sched, net)
        traces.append(tr)
        metas.append({'net': net, 'hist': hist, 'vorder': vorder})
        run.count()
        run.nontrivial(json.dumps([kinds, ins, ps, doms_of, hist, vorder]))
        if max_traces and len(traces) >= max_traces:
            break
    report(run, traces, metas, tag)
    if traces:
        run.sample({'netlist': [[l['kind'], l['ins'], l['p'], l['dom']] for l in metas[0]['net']['leaves']],
                    'history': metas[0]['hist'], 'visit_order': metas[0]['vorder']})


def report(run, traces, metas, tag):
    for kind, tid, line, clause, detail in simrun.validate(run, traces, name=tag):
        m = metas[tid - 1]
        wit = dict(m)
        wit['trace'] = traces[tid - 1]
        wit['failed'] = {'line': line, 'clause': clause, 'detail': detail}
        kinds = '+'.join(sorted({l['kind'] for l in m['net']['leaves']}))
        if kind == 'V':
            pid = 'C06' if clause == 'range' else run.pid
            sig = '%s:%s:%s' % (run.pid, clause, tag)
            run.violation(sig, wit, 'real simulator differs from the order-free reference (%s) at step %d, wire/leaf %s; leaves %s'
                          % (clause, line, detail, kinds))
        else:
            run.drift_note('%s: leaf internal state differs from Kernel (wires agree)' % tag)


# ------------------------------------------------------------------ part B
def composite(rng):
    import py4hw
    hw = py4hw.HWSystem()
    kind = rng.choice(['Counter', 'ModuloCounter', 'DelayLine', 'ShiftReg', 'Stack', 'EdgeDetector', 'TReg',
                       'Pipeline', 'RegChain', 'Mem', 'ClockDivider', 'Cross', 'DomChain', 'DomChain'])
    w = rng.choice([1, 2, 3, 4])
    W = hw.wire
    if kind == 'Counter':
        py4hw.Counter(hw, 'dut', W('reset'), W('inc'), W('q', w))
    elif kind == 'ModuloCounter':
        py4hw.ModuloCounter(hw, 'dut', rng.choice([2, 3, 5, 6]), W('reset'), W('inc'), W('q', 3), W('co'))
    elif kind == 'DelayLine':
        py4hw.DelayLine(hw, 'dut', W('a', w), W('en'), W('reset'), W('r', w), rng.choice([1, 2, 3]))
    elif kind == 'ShiftReg':
        py4hw.ShiftRegisterBidirectional(hw, 'dut', W('li', w), W('ri', w), W('lo', w), W('ro', w), W('sl'), W('sr'), rng.choice([2, 3]))
    elif kind == 'Stack':
        py4hw.Stack_ShiftRegister(hw, 'dut', W('din', w), W('dout', w), W('push'), W('pop'), None, None, rng.choice([2, 3]))
    elif kind == 'EdgeDetector':
        py4hw.EdgeDetector(hw, 'dut', W('a'), W('r'), rng.choice(['pos', 'neg', 'both']))
    elif kind == 'TReg':
        py4hw.TReg(hw, 'dut', W('t'), W('q'), enable=W('e'), reset=W('r'))
    elif kind == 'Pipeline':
        py4hw.PipelinePhase(hw, 'dut', W('reset'), [W('a', w), W('b', w)], [W('x', w), W('y', w)])
    elif kind == 'RegChain':
        a = W('a', w)
        e = W('e')
        r = W('r')
        prev = a
        for k in range(rng.choice([2, 3, 4])):
            q = W('q%d' % k, w)
            py4hw.Reg(hw, 'r%d' % k, prev, q, enable=e if rng.random() < .5 else None, reset=r if rng.random() < .5 else None,
                      reset_value=rng.choice([0, 1, 5, -1]))
            prev = q
    elif kind == 'Mem':
        py4hw.SynchronousMemory(hw, 'dut', W('ra', 2), W('wa', 2), W('we'), W('rd', w), W('wd', w))
    elif kind == 'ClockDivider':
        py4hw.ClockDivider(hw, 'dut', 100, rng.choice([10, 12, 25]), W('clkout'), reset=W('reset'))
    elif kind == 'DomChain':
        # register chain whose stages alternate between the system clock and derived / gated drivers
        a = W('a', w)
        g = W('g')
        drvs = [None, py4hw.ClockDriver('d2', base=hw.clockDriver, wire=W('clk_d2')),
                py4hw.ClockDriver('d3', base=hw.clockDriver, enable=g, wire=W('clk_d3'))]
        prev = a
        for k in range(rng.choice([2, 3, 4])):
            q = W('q%d' % k, w)
            r = py4hw.Reg(hw, 'r%d' % k, prev, q)
            d = rng.choice(drvs)
            if d is not None:
                r.clockDriver = d
            prev = q
    elif kind == 'Cross':
        # cross-coupled registers with combinational logic in between
        a = W('a', w)
        q1 = W('q1', w)
        q2 = W('q2', w)
        x = W('x', w)
        y = W('y', w)
        py4hw.Reg(hw, 'r1', y, q1)
        py4hw.And2(hw, 'x', q1, a, x)
        py4hw.Reg(hw, 'r2', x, q2, enable=W('e'))
        py4hw.Not(hw, 'y', q2, y)
    return hw, kind


def part_b(run, count, cycles):
    rng = random.Random(run.seed + 5)
    traces = []
    metas = []
    for t in range(count):
        with quiet():
            hw, kind = composite(rng)
            try:
                net, wires = netlist.extract(hw)
            except netlist.Unsupported as e:
                run.note('unsupported_' + kind, str(e))
                continue
            leaves = hw.allLeaves()
        und = sorted(w for w in range(1, len(wires) + 1) if not any(w in l['outs'] for l in net['leaves'])
                     and not wires[w - 1].name.startswith('clk'))
        sched = []
        left = cycles
        ndoms = len(net['doms'])
        seqs = [b + 1 for b, l in enumerate(net['leaves']) if l['dom']]
        while left > 0:
            for w in und:
                if rng.random() < 0.7:
                    sched.append(('poke', w - 1, rng.randrange(1 << net['width'][w - 1])))
            n = min(left, rng.choice([1, 1, 1, 2, 3]))
            lorder = list(seqs)
            rng.shuffle(lorder)
            dorder = list(range(1, ndoms + 1))
            rng.shuffle(dorder)
            sched.append(('clk', n, dorder, lorder))
            left -= n
        tr = simrun.record(hw, wires, leaves, sched, net)
        traces.append(tr)
        metas.append({'net': net, 'hist': [list(s[:2]) if s[0] == 'clk' else list(s) for s in sched], 'vorder': kind})
        run.count()
        run.nontrivial(kind + json.dumps(sched[:8], default=str))
    report(run, traces, metas, 'composite')


def check(run):
    if run.tier == 'quick':
        with run.stage('e1'):
            recs = mc_edge(run, 'e1', N=2, P=1, WD=2, shapes=['Reg', 'RegE', 'RegR', 'Not'], rvs=[0, 3], gated=False,
                           invecs=[[0], [1], [2]], cycles=2, mod=3)
            replay_records(run, recs, 1, 2, 'mc-edge-2')
        with run.stage('e2'):
            recs = mc_edge(run, 'e2', N=3, P=1, WD=1, shapes=['Reg', 'And2'], rvs=[0, 1], gated=False,
                           invecs=[[0], [1]], cycles=2, mod=4)
            replay_records(run, recs, 1, 1, 'mc-edge-3')
        with run.stage('e3'):
            recs = mc_edge(run, 'e3', N=2, P=1, WD=1, shapes=['Mem', 'Reg', 'Seq'], rvs=[0], gated=False,
                           invecs=[[0], [1]], cycles=2, maxn=2, mod=8)
            replay_records(run, recs, 1, 1, 'mc-edge-mem')
        with run.stage('e4'):
            recs = mc_edge(run, 'e4', N=2, P=1, WD=1, shapes=['Reg', 'RegE'], rvs=[0, 1], gated=True,
                           invecs=[[0], [1]], cycles=2, maxn=2, mod=6)
            replay_records(run, recs, 1, 1, 'mc-edge-2dom')
        with run.stage('b'):
            part_b(run, 400, 12)
        with run.stage('wire'):
            from . import c06
            # in-range values only: what is judged here is which prepared value becomes visible, and when
            c06.part_c(run, [(2, 2, [0, 1, 2, 3]), (1, 2, [0, 1])], 3, 3, strict=True)
    else:
        recs = mc_edge(run, 'e1', N=2, P=1, WD=2, shapes=['Reg', 'RegE', 'RegR', 'RegER', 'Not', 'And2'], rvs=[0, 3],
                       gated=False, invecs=[[0], [1], [2], [3]], cycles=3, mod=8)
        replay_records(run, recs, 1, 2, 'mc-edge-2')
        recs = mc_edge(run, 'e2', N=3, P=1, WD=1, shapes=['Reg', 'RegE', 'And2'], rvs=[0], gated=False,
                       invecs=[[0], [1]], cycles=2, mod=16)
        replay_records(run, recs, 1, 1, 'mc-edge-3')
        recs = mc_edge(run, 'e3', N=2, P=2, WD=1, shapes=['Mem', 'Reg', 'RegE', 'Seq'], rvs=[0, 1], gated=False,
                       invecs=[[0, 0], [1, 0], [0, 1], [1, 1]], cycles=2, maxn=2, mod=12)
        replay_records(run, recs, 2, 1, 'mc-edge-mem')
        recs = mc_edge(run, 'e4', N=3, P=1, WD=1, shapes=['Reg', 'Not'], rvs=[0, 1], gated=True,
                       invecs=[[0], [1]], cycles=2, maxn=2, mod=16)
        replay_records(run, recs, 1, 1, 'mc-edge-2dom')
        part_b(run, 6000, 30)
        from . import c06
        c06.part_c(run, [(2, 2, [0, 1, 2, 3]), (1, 2, [0, 1]), (3, 1, [0, 1, 5, 6, 7])], 3, 4, strict=True)
    run.assumptions += ['model data width 1-2 bits, netlists of 2-3 leaves exhaustively; larger designs by seeded random schedules',
                        'visit orders are imposed through the public attributes Simulator.clockDrivers / clockables',
                        'TLC explores every schedule; a random 1/EmitMod sample of the settled transitions is replayed on the code '
                        '(EmitMod = 1 for the smallest configuration)']


def replay(run, path):
    rec = json.loads(open(path).read())
    w = rec['witness']
    tr = w['trace']
    print('recorded failing clause:', w['failed'])
    out = simrun.validate(run, [tr], name='replay')
    for o in out:
        print('re-validation:', o)
        if o[0] == 'V':
            run.violation(rec['signature'], w, 'recorded trace re-validated: still rejected')


def selftest(run):
    """a recorded trace with one corrupted wire value, and one with prepared != 0, must be rejected"""
    recs = mc_edge(run, 'st', N=2, P=1, WD=1, shapes=['Reg', 'Not'], rvs=[0, 1], gated=False, invecs=[[0], [1]], cycles=1)
    r = recs[len(recs) // 2]
    _, kinds, ins, ps, doms_of, doms, hist, vorder = r
    net = {'width': [1] * 3, 'leaves': [{'kind': kinds[b], 'ins': ins[b], 'outs': [2 + b], 'p': ps[b], 'dom': doms_of[b]} for b in range(2)], 'doms': doms}
    with quiet():
        hw, wires, objs = netlist.build(net)
    tr = simrun.record(hw, wires, objs, [('poke', 0, 1), ('clk', 1, None, None)], net)
    t2 = json.loads(json.dumps(tr))
    t2['steps'][-1]['vals'][-1] ^= 1
    t3 = json.loads(json.dumps(tr))
    t3['steps'][-1]['prepared'] = 1
    out = simrun.validate(run, [tr, t2, t3], name='st')
    bad = {o[1] for o in out if o[0] == 'V'}
    return bad == {2, 3}
