"""C01 Generated Verilog behaves exactly like the simulated structural design.

For every design (each library block of the catalogue inside a structural top, at several widths and constructor
parameters, covering the emission routes: inlined assign, BodyReg / verilogBody, shared named module, per-instance
module; seeded compositions with hierarchy, fan-out, feedback through registers, repeated kinds) the text returned by
VerilogGenerator.getVerilogForHierarchy() is parsed (syntax only) and EXECUTED by TLC under VerilogSem.tla (IEEE 1364
expression sizing/signedness on limb vectors, continuous-assignment fixpoint, non-blocking register update, initial
values, hierarchical instances).  The real py4hw simulator runs the same design from power-up (all input vectors for
small combinational designs, seeded random input sequences otherwise) and every top-level output is compared at
power-up and after every clock edge (Trace_Verilog).  Inputs for which the simulator itself is nondeterministic
(division / modulo by zero) are not compared.
"""
import itertools
import json
import random

from .. import vdesigns, vparse
from ..common import quiet, MachineryError
from ..tlc import run_tlc

LEVEL = 'translation_validation'
RULE = ('programs = emitted Verilog files (one per design); each is executed by TLC on the input sequence the real simulator ran; '
        'distinct = distinct emitted texts; disagreements_checked = output comparisons (outputs x cycles)')

L = vparse.limbs


def divzero(hw):
    for lf in hw.allLeaves():
        if type(lf).__name__ in ('Div', 'Mod'):
            if lf.b.get() == 0:
                return True
    return False


def record(d, rng, cycles, exhaustive_limit):
    """run the real simulator; returns (pre, steps)"""
    ins, outs = d['ins'], d['outs']
    with quiet():
        sim = d['hw'].getSimulator()
        widths = [w.getWidth() for _, w in ins]
        total = 1
        for w in widths:
            total *= (1 << w)
        if not d['seq'] and total <= exhaustive_limit:
            seqs = [list(v) for v in itertools.product(*[range(1 << w) for w in widths])]
        else:
            seqs = []
            cur = [0] * len(widths)
            for _ in range(cycles):
                hold = rng.random() < 0.3
                cur = [v if hold and rng.random() < 0.5 else rng.choice([0, 1, (1 << w) - 1, rng.randrange(1 << w), rng.randrange(1 << w)])
                       for v, w in zip(cur, widths)]
                seqs.append(list(cur))
        first = seqs[0] if seqs else []
        for (n, w), v in zip(ins, first):
            w.put(v)
        sim.propagateAll()
        pre = {'i': [L(v) for v in first], 'o': [L(w.get()) for _, w in outs], 'skip': 1 if divzero(d['hw']) else 0}
        steps = []
        for iv in seqs:
            for (n, w), v in zip(ins, iv):
                w.put(v)
            sim.clk(1)
            steps.append({'i': [L(v) for v in iv], 'o': [L(w.get()) for _, w in outs], 'skip': 1 if divzero(d['hw']) else 0, 'v': []})
    return pre, steps


def traits(top):
    """root-cause traits of a design, used to attribute a disagreement to a failing site"""
    import py4hw
    g = py4hw.VerilogGenerator(top)
    out = set()

    def walk(o):
        if has_structure_name(o) and not g.isInlinable(o):
            ws = [id(p.wire) for p in o.inPorts]
            if len(ws) != len(set(ws)):
                out.add('aliased-ports-shared-module')
        for c in o.children.values():
            walk(c)
    walk(top)
    return out


def has_structure_name(o):
    return callable(getattr(o, 'structureName', None))


def judge(run, items, tag):
    traces, metas = [], []
    for d, text, pre, steps in items:
        try:
            ast = vparse.parse(text)
        except vparse.VSyntaxError as e:
            if e.kind == 'illegal':
                run.violation('%s:unparseable:%s' % (run.pid, d['kind']), {'design': d['name'], 'error': str(e), 'text': text[:2000]},
                              'emitted text of %s cannot be executed: %s' % (d['name'], e))
            else:
                run.cov['unsupported'] = run.cov.get('unsupported', 0) + 1
            continue
        from py4hw.rtl_generation import getVerilogModuleName, getPortName
        topname = getVerilogModuleName(d['top'], noInstanceNumber=True)
        traces.append({'file': ast, 'top': topname, 'ins': [getPortName_(n) for n, _ in d['ins']],
                       'outs': [getPortName_(n) for n, _ in d['outs']], 'pre': pre, 'steps': steps, 'vars': d.get('vars', []),
                       'xcheck': d.get('xcheck', 0)})
        metas.append((d, text))
    for c0 in range(0, len(traces), 200):
        part = traces[c0:c0 + 200]
        tf = run.scratch / ('%s_%d.json' % (tag, c0))
        tf.write_text(json.dumps(part))
        res = run_tlc('Trace_Verilog', 'CONSTANTS\n MaxSweeps = 12\nINIT Init\nNEXT Next\n', run.scratch / ('%s_%d' % (tag, c0)),
                      env={'TRACE_FILE': str(tf)}, timeout=3400)
        run.add_tlc(res)
        seen = set()
        for r in res.records:
            tid = r[1] + c0
            seen.add(tid)
            d, text = metas[tid - 1]
            tr = traces[tid - 1]
            if r[0] == 'V':
                step = tr['pre'] if r[2] == 0 else tr['steps'][r[2] - 1]
                wit = {'design': d['name'], 'clause': r[3], 'cycle': r[2], 'output': r[4][0] if isinstance(r[4], list) else r[4],
                       'verilog_value_limbs': r[4][1] if isinstance(r[4], list) else None, 'inputs_limbs': step['i'],
                       'simulator_outputs_limbs': step['o'], 'input_ports': tr['ins'], 'output_ports': tr['outs'], 'text': text[:3500]}
                tr_ = sorted(traits(d['top']))
                sig = '%s:%s' % (run.pid, tr_[0]) if tr_ else '%s:%s:%s' % (run.pid, r[3], d['kind'])
                run.violation(sig, wit,
                              '%s: emitted Verilog and simulator disagree on %s at %s' % (d['name'], wit['output'],
                                                                                           'power-up' if r[2] == 0 else 'cycle %d' % r[2]))
        if len(seen) != len(part):
            raise MachineryError('Trace_Verilog judged %d of %d designs' % (len(seen), len(part)))
        tf.unlink()
    n = len(traces)
    run.cov['programs'] = run.cov.get('programs', 0) + n
    run.cov['disagreements_checked'] = run.cov.get('disagreements_checked', 0) + sum((len(t['steps']) + 1) * len(t['outs']) for t in traces)
    run.cov['traces_validated_against_impl'] += n
    if metas:
        k = len(metas) // 2
        run.sample({'design': metas[k][0]['name'], 'text_head': metas[k][1][:300], 'first_steps': traces[k]['steps'][:3]})


def getPortName_(n):
    from py4hw.rtl_generation import getValidVerilogName
    return getValidVerilogName(n)


def gather(run, designs, rng, cycles, limit):
    items = []
    seen = set()
    for k, d in enumerate(designs):
        # every other design is simulated FIRST and its Verilog requested afterwards (validate, then generate): the text
        # describes the design from power-up, whatever state the simulated objects are in when it is emitted
        sim_first = k % 2 == 1
        pre = steps = None
        if sim_first:
            try:
                pre, steps = record(d, rng, cycles, limit)
            except Exception as e:
                run.cov['simulation_failed'] = run.cov.get('simulation_failed', 0) + 1
                continue
        try:
            text = vdesigns.emit(d['top'])
        except Exception as e:
            run.cov['generation_refused'] = run.cov.get('generation_refused', 0) + 1
            continue
        if not sim_first:
            try:
                pre, steps = record(d, rng, cycles, limit)
            except Exception as e:
                run.cov['simulation_failed'] = run.cov.get('simulation_failed', 0) + 1
                continue
        run.count(len(steps) + 1)
        run.nontrivial(hash(text))
        items.append((d, text, pre, steps))
    return items


def check(run):
    rng = random.Random(run.seed + 1)
    if run.tier == 'quick':
        designs = vdesigns.library_designs(widths=(1, 2, 3), rng=rng, frac=0.22)
        ncomp, cycles, limit, npair = 60, 24, 64, 40
    else:
        designs = vdesigns.library_designs(widths=(1, 2, 3, 4), rng=rng, frac=1.0)
        ncomp, cycles, limit, npair = 1500, 60, 256, 1000
    judge(run, gather(run, designs, rng, cycles, limit), 'lib')
    # port widths beyond 32 bits (unsized Verilog literals and integer contexts are 32 bit wide): values travel as limb vectors
    wide = []
    with quiet():
        for w, frac in ([(33, 0.05), (64, 0.05)] if run.tier == 'quick' else [(31, 0.3), (32, 0.3), (33, 0.5), (40, 0.3), (64, 0.5)]):
            wide += vdesigns.library_designs(widths=(w,), rng=rng, frac=frac)
    judge(run, gather(run, wide, rng, min(cycles, 16), 32), 'wide')
    comps = []
    with quiet():
        for k in range(ncomp):
            try:
                comps.append(vdesigns.composite(rng, hostile=False, alias=(k % 6 == 5)))
            except Exception:
                pass
    judge(run, gather(run, comps, rng, cycles, limit), 'comp')
    with quiet():
        pairs = vdesigns.pair_designs(rng, npair, seq_first=True)
    judge(run, gather(run, pairs, rng, cycles, limit), 'pair')
    run.assumptions += ['VerilogSem.tla is a transcription of IEEE 1364-2005 for the emitted subset (two-state; never-initialised storage '
                        'reads 0); no third-party Verilog simulator is available to cross-check it',
                        'black-box external IP and gated-clock bodies are outside the designs']


def replay(run, path):
    rec = json.loads(open(path).read())
    w = rec['witness']
    print(json.dumps({k: w[k] for k in w if k != 'text'})[:800])
    print(w['text'][:1200])
    check(run)


def selftest(run):
    """swapping the branches of one emitted ?: must be rejected; the untouched text accepted"""
    import py4hw
    rng = random.Random(5)
    ds = [d for d in vdesigns.library_designs(widths=(2,)) if d['kind'] in ('Abs', 'Mux2')]
    d = ds[0]
    text = vdesigns.emit(d['top'])
    pre, steps = record(d, rng, 20, 64)
    import re
    m = re.search(r'\((\w+)\)\? (\w+) : (\w+);', text)
    bad = text.replace(m.group(0), '(%s)? %s : %s;' % (m.group(1), m.group(3), m.group(2)))
    before = len(run.violations)
    judge(run, [(d, text, pre, steps)], 'st1')
    ok1 = len(run.violations) == before
    judge(run, [(d, bad, pre, steps)], 'st2')
    ok2 = len(run.violations) == before + 1
    run.violations.clear()
    return ok1 and ok2
