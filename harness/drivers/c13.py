"""C13 Single-precision floating-point blocks meet IEEE-754 within stated error bounds.

 A. MC_FP (design level): the adder algorithm as py4hw builds it (absolute-compare swap, exponent difference truncated to
    DW bits, alignment, add/subtract, leading-zero normalisation, exponent adjust) is run by TLC over ALL pairs of normal
    operands of a small format (EW, MW) and judged by the same predicate as the real block (sign of the exact sum, error
    below 2 ulp of the larger operand, commutativity); the variant without the restriction gap < 2^DW shows which pairs
    a too narrow difference wire breaks.
 B. The real 32-bit blocks FPComparator_SP (plain and absolute), FPMult_SP, FPAdder_SP, FPtoInt_SP, InttoFP_SP are simulated
    on a structured operand set (exponent pairs x boundary mantissa patterns x sign combinations, every exponent gap 0..80,
    close magnitudes of opposite sign; powers of two +-1, the 2^31 neighbourhood and seeded random 32-bit integers for the
    conversions); the outputs are judged by TLC with the property predicates of FPBlocks.tla over exact dyadic rationals
    (Trace_FP).  Only finite normal operands, and only when the exact result is normal, as the statement says.
"""
import json
import random

from ..common import quiet, MachineryError
from ..tlc import run_model, run_tlc
from ..vparse import limbs

LEVEL = 'model_checking'
RULE = ('operand pairs (or single operands) from the structured table; distinct = distinct (block, operands) rows judged by TLC; '
        'design-level states = operand pairs of the scaled format explored exhaustively')


def fields(bits):
    return [(bits >> 31) & 1, (bits >> 23) & 0xFF, limbs(bits & 0x7FFFFF)]


def pack(s, e, m):
    return (s << 31) | (e << 23) | m


MANTS = [0, 1, 2, 0x400000, 0x400001, 0x7FFFFF, 0x7FFFFE, 0x2AAAAA, 0x555555, 0x7FF000, 0x000FFF, 0x100000]


class Blocks:
    def __init__(self):
        import py4hw
        with quiet():
            self.hw = py4hw.HWSystem()
            W = self.hw.wire
            self.a, self.b = W('a', 32), W('b', 32)
            self.cmp = [W('gt'), W('eq'), W('lt')]
            self.cmpa = [W('agt'), W('aeq'), W('alt')]
            self.mul, self.add = W('mul', 32), W('add', 32)
            self.fi = [W('fi', 32), W('fi_pl'), W('fi_dn'), W('fi_inv')]
            self.if_ = [W('if', 32), W('if_pl')]
            py4hw.FPComparator_SP(self.hw, 'cmp', self.a, self.b, *self.cmp)
            py4hw.FPComparator_SP(self.hw, 'cmpa', self.a, self.b, *self.cmpa, absolute=True)
            py4hw.FPMult_SP(self.hw, 'mul', self.a, self.b, self.mul)
            py4hw.FPAdder_SP(self.hw, 'add', self.a, self.b, self.add)
            py4hw.FPtoInt_SP(self.hw, 'fi', self.a, *self.fi)
            py4hw.InttoFP_SP(self.hw, 'if', self.a, *self.if_)
            self.sim = self.hw.getSimulator()

    def run(self, a, b=0):
        with quiet():
            self.a.put(a)
            self.b.put(b)
            self.sim.clk(1)


def pair_rows(blk, pa, pb, rows):
    blk.run(pa, pb)
    cmp_ = [w.get() for w in blk.cmp]
    cmpa = [w.get() for w in blk.cmpa]
    mul, add = blk.mul.get(), blk.add.get()
    blk.run(pb, pa)
    mul2, add2 = blk.mul.get(), blk.add.get()
    fa, fb = fields(pa), fields(pb)
    rows.append({'op': 'cmp', 'abs': 0, 'a': fa, 'b': fb, 'got': cmp_})
    rows.append({'op': 'cmp', 'abs': 1, 'a': fa, 'b': fb, 'got': cmpa})
    rows.append({'op': 'mul', 'a': fa, 'b': fb, 'r': fields(mul), 'rswap': fields(mul2)})
    rows.append({'op': 'add', 'a': fa, 'b': fb, 'r': fields(add), 'rswap': fields(add2)})


def operand_pairs(rng, tier):
    pairs = []
    exps = [2, 100, 127, 128, 150, 254]
    gaps = (list(range(0, 81)) + [100, 127, 128, 129, 200, 232, 233, 240, 252, 253]) if tier == 'thorough' else \
        [0, 1, 2, 3, 8, 22, 23, 24, 25, 26, 31, 32, 33, 40, 64, 128, 129, 233, 253]
    ms = MANTS if tier == 'thorough' else MANTS[:6]
    for g in gaps:
        for e1 in ([127, 150, 254, 100] if tier == 'quick' else exps):
            e2 = e1 - g
            if e2 < 1:
                continue
            for m1 in (ms if g < 4 or tier == 'thorough' else ms[:3]):
                for m2 in (ms[:4] if tier == 'quick' else ms):
                    for s1, s2 in ((0, 0), (0, 1), (1, 0), (1, 1)) if (m1 + m2) % 3 == 0 or tier == 'thorough' else ((0, 1),):
                        pairs.append((pack(s1, e1, m1), pack(s2, e2, m2)))
    # significand products just below a power of two (rounding / normalisation boundary of the multiplier) and
    # significand sums just below a carry (adder): ma * mb in [2^47 - 2^24, 2^47) or [2^48 - 2^24, 2^48)
    for _ in range(150 if tier == 'quick' else 6000):
        ma = (1 << 23) | rng.randrange(1 << 23)
        for target in ((1 << 47) - 1, (1 << 48) - 1):
            mb = target // ma - rng.choice([0, 0, 0, 1, 2])
            if (1 << 23) <= mb < (1 << 24):
                e1, e2 = rng.randrange(100, 150), rng.randrange(100, 150)
                pairs.append((pack(rng.randrange(2), e1, ma & 0x7FFFFF), pack(rng.randrange(2), e2, mb & 0x7FFFFF)))
        mc = ((1 << 24) - 1 - ma) | (1 << 23) if rng.random() < 0.5 else ((1 << 25) - 1 - ma) & 0xFFFFFF
        if (1 << 23) <= mc < (1 << 24):
            pairs.append((pack(0, 127, ma & 0x7FFFFF), pack(0, 127, mc & 0x7FFFFF)))
    # close magnitudes of opposite sign
    for _ in range(200 if tier == 'quick' else 5000):
        e = rng.randrange(2, 254)
        m = rng.randrange(1 << 23)
        d = rng.choice([1, 2, 3, 1 << rng.randrange(23)])
        pairs.append((pack(0, e, m), pack(1, e, (m + d) & 0x7FFFFF)))
        pairs.append((pack(rng.randrange(2), e, m), pack(rng.randrange(2), rng.randrange(1, 255), rng.randrange(1 << 23))))
    return pairs


def conv_rows(blk, rng, tier, rows):
    vals = set()
    for k in range(0, 32):
        for d in (-1, 0, 1):
            for sgn in (1, -1):
                vals.add((sgn * ((1 << k) + d)) & 0xFFFFFFFF)
    vals |= {0, 1, 0xFFFFFFFF, 0x80000000, 0x7FFFFFFF, 0x80000001, 0x01000000, 0x01000001, 0x00FFFFFF, 0x02000001, 0xFEFFFFFF}
    for _ in range(300 if tier == 'quick' else 20000):
        vals.add(rng.randrange(1 << 32))
        vals.add(rng.randrange(1 << rng.randrange(1, 33)))
    for v in sorted(vals):
        blk.run(v)
        rows.append({'op': 'inttofp', 'a': limbs(v), 'r': fields(blk.if_[0].get()), 'plost': blk.if_[1].get()})
    fvals = set()
    for e in list(range(100, 162)) + [1, 2, 60, 94, 95, 96, 200, 254]:
        for m in MANTS + [rng.randrange(1 << 23) for _ in range(3 if tier == 'quick' else 30)]:
            for s in (0, 1):
                fvals.add(pack(s, e, m))
    for p in sorted(fvals):
        blk.run(p)
        rows.append({'op': 'fptoint', 'a': fields(p), 'r': limbs(blk.fi[0].get()), 'plost': blk.fi[1].get(), 'invalid': blk.fi[3].get()})


def classify(row):
    op = row['op']
    if op in ('add', 'mul', 'cmp'):
        gap = abs(row['a'][1] - row['b'][1])
        g = 'expgap>=32' if gap >= 32 else 'expgap<32'
        if op == 'cmp':
            return 'cmp:%s' % ('abs' if row['abs'] else 'plain')
        return '%s:%s' % (op, g)
    if op == 'fptoint':
        return 'fptoint:e=%s' % ('>=158' if row['a'][1] >= 158 else '<127' if row['a'][1] < 127 else '127..157')
    return op


def judge(run, rows, tag):
    chunk = 250
    tables = [{'rows': rows[k:k + chunk]} for k in range(0, len(rows), chunk)]
    for c0 in range(0, len(tables), 200):
        part = tables[c0:c0 + 200]
        tf = run.scratch / ('%s_%d.json' % (tag, c0))
        tf.write_text(json.dumps(part))
        res = run_tlc('Trace_FP', 'INIT Init\nNEXT Next\n', run.scratch / ('%s_%d' % (tag, c0)), env={'TRACE_FILE': str(tf)}, timeout=3400)
        run.add_tlc(res)
        seen = set()
        for r in res.records:
            tid = r[1] + c0
            seen.add(tid)
            if r[0] == 'V':
                for k in r[2]:
                    row = tables[tid - 1]['rows'][k - 1]
                    run.violation('C13:' + classify(row), {'row': row},
                                  'block output breaks its bound: %s' % json.dumps(row)[:300])
        if len(seen) != len(part):
            raise MachineryError('Trace_FP judged %d of %d tables' % (len(seen), len(part)))
        tf.unlink()
    run.cov['traces_validated_against_impl'] += len(tables)


def design_level(run, ew, mw):
    # the block computes the exponent difference on a wire as wide as the exponent (DW = EW): no gap wraps
    res = run_model('MC_FP', dict(EW=ew, MW=mw, DW=ew), run.scratch / 'mcfp', invariants=['AdderMeetsBoundAllGaps', 'AdderCommutes'], timeout=3400)
    if res.violated:
        raise MachineryError('MC_FP (%d,%d): %s violated by the algorithm model' % (ew, mw, res.violated))
    run.add_tlc(res)
    # negative control of the model: a difference wire that is too narrow must break the bound for large gaps
    res2 = run_model('MC_FP', dict(EW=ew, MW=mw, DW=2), run.scratch / 'mcfp2', invariants=['AdderMeetsBoundAllGaps'], timeout=3400)
    if not res2.violated:
        raise MachineryError('MC_FP negative control: a 2-bit exponent difference did not break the bound')
    run.note('design_level', 'adder algorithm model (EW=%d, MW=%d): bound and commutativity hold for all pairs of normal operands; '
             'with a 2-bit exponent difference the bound breaks for larger gaps (negative control)' % (ew, mw))


def check(run):
    rng = random.Random(run.seed + 13)
    if run.tier == 'quick':
        design_level(run, 3, 2)
    else:
        design_level(run, 4, 3)
    blk = Blocks()
    rows = []
    for pa, pb in operand_pairs(rng, run.tier):
        pair_rows(blk, pa, pb, rows)
    conv_rows(blk, rng, run.tier, rows)
    for r in rows:
        run.nontrivial(json.dumps(r, sort_keys=True))
    run.count(len(rows))
    judge(run, rows, 'fp')
    for k in (0, len(rows) // 2, len(rows) - 1):
        run.sample(rows[k])
    run.assumptions += ['finite normal operands only, and (mul, add) only when the exact result is normal; 32-bit blocks are judged on a '
                        'structured operand table, not on all 2^64 pairs; the scaled algorithm model covers the adder']


def replay(run, path):
    rec = json.loads(open(path).read())
    row = rec['witness']['row']
    print(json.dumps(row))
    judge(run, [row], 'replay')
    run.count()
    run.nontrivial('r1')
    run.nontrivial('r2')


def selftest(run):
    blk = Blocks()
    rows = []
    pair_rows(blk, pack(0, 127, 0x400000), pack(0, 126, 0x200000), rows)
    bad = json.loads(json.dumps(rows[3]))
    bad['r'][2] = limbs(0)
    bad['rswap'][2] = limbs(0)
    before = len(run.violations)
    judge(run, rows + [bad], 'st')
    ok = len(run.violations) - before == 1
    run.violations.clear()
    return ok
