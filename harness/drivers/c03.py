"""C03 Emitted Verilog is self-consistent: it parses, resolves and elaborates.

Every design (each library block of the catalogue alone at several widths/parameters; seeded structural
compositions with fan-out, feedback, repeated kinds with different optional ports; the same with hostile wire /
port / instance names: reserved words, names that collide after the w_/i_ prefixing, 'clk') is handed to
VerilogGenerator.getVerilogForHierarchy().  The returned text is parsed by the syntax-only front end
(harness/vparse.py) and the AST, together with the interface table of the live objects, is judged by TLC against
VerilogWF.tla: declared once, no reserved word, every use declared, every instantiated module defined once with
the ports the instance connects (names, widths, directions), exactly one driver of the right kind per net,
objects emitted under one module name interchangeable.  A parse failure that no Verilog-2001 production admits
is itself a violation.
"""
import json
import random

from .. import vdesigns, vparse
from ..common import quiet, MachineryError
from ..tlc import run_tlc

LEVEL = 'model_checking'
RULE = ('designs = library blocks of the catalogue alone + seeded compositions (plain and hostile names); every emitted file is '
        'parsed and judged by TLC (VerilogWF); distinct = distinct emitted texts')


def classify(find, ast, all_finds, meta=None):
    """signature = failing site.  Findings that are consequences of a known root cause in the same module are attributed to it:
    a user port/wire called like the implicit clock port, or two objects sharing one module name with different ports."""
    import re
    rule, mod, ident = find
    m = next((x for x in ast['modules'] if x['name'] == mod), None)
    if m is not None:
        names = [p['n'] for p in m['ports']] + [d['n'] for d in m['decls']] + [i['name'] for i in m['insts']]
        dups = {n for n in names if names.count(n) > 1}

        def cause(n):
            if n == 'clk':
                return 'implicit-clock-name-collision'
            if n.startswith('w_') or n.startswith('i_'):
                return 'prefix-name-collision'
            return None
        if ident in dups and cause(ident):
            return cause(ident)
        inst = next((i for i in m['insts'] if i['name'] == ident), None)
        if inst is not None:
            for c in inst['conns']:
                n = c['e'][0].get('n') if c['e'] else None
                if n in dups and cause(n):
                    return cause(n)
        shared = {f[1] for f in all_finds if f[0] == 'shared-name-not-interchangeable'}
        inst = next((i for i in m['insts'] if i['name'] == ident), None)
        if inst is not None and inst['mod'] in shared:
            return 'shared-module-name:' + re.sub(r'\d+', 'N', inst['mod'])
        if rule == 'net-without-driver':
            for i in m['insts']:
                if i['mod'] in shared and any(c['e'] and c['e'][0].get('n') == ident for c in i['conns']):
                    return 'shared-module-name:' + re.sub(r'\d+', 'N', i['mod'])
    if rule == 'shared-name-not-interchangeable':
        return 'shared-module-name:' + re.sub(r'\d+', 'N', mod)
    if m is not None and meta and meta.get('clocks'):
        # an instance that connects a clock port called like ANOTHER clock driver than the one the shared body was emitted for
        inst = next((i for i in m['insts'] if i['name'] == ident), None)
        if inst is not None and rule in ('no-such-port', 'port-not-connected', 'input-port-not-connected'):
            d = next((x for x in ast['modules'] if x['name'] == inst['mod']), None)
            if d is not None:
                dports = {p['n'] for p in d['ports']}
                cports = {c['p'] for c in inst['conns']}
                clocks = set(meta['clocks'])
                if (cports - dports) & clocks or (dports - cports) & clocks:
                    return 'shared-module-other-clock-name'
    mm = re.sub(r'_[0-9a-f]{8,}$', '', mod)
    mm = re.sub(r'\d+', 'N', mm)
    return '%s:%s' % (rule, mm)


def judge(run, items, tag):
    """items: list of (design meta, text, iface)"""
    files, metas = [], []
    texts = set()
    for meta, text, iface in items:
        run.count()
        if text in texts or not text.strip():
            if not text.strip():
                run.violation('C03:empty-text:' + ('repeat' if 'same generator' in meta['name'] else 'first'), {'design': meta['name']},
                              'generation returned an empty text for ' + meta['name'])
            continue
        texts.add(text)
        run.nontrivial(hash(text))
        try:
            ast = vparse.parse(text)
        except vparse.VSyntaxError as e:
            if e.kind == 'illegal':
                run.violation('C03:syntax:%s' % meta['kind'], {'design': meta['name'], 'error': str(e), 'text': text[:3000]},
                              'emitted text of %s is not Verilog-2001: %s' % (meta['name'], e))
            else:
                run.cov['unsupported_files'] = run.cov.get('unsupported_files', 0) + 1
            continue
        ast['ext'] = meta.get('ext', [])
        ast['iface'] = iface
        files.append(ast)
        metas.append((meta, text))
    for c0 in range(0, len(files), 400):
        part = files[c0:c0 + 400]
        tf = run.scratch / ('%s_%d.json' % (tag, c0))
        tf.write_text(json.dumps(part))
        res = run_tlc('Trace_WF', 'INIT Init\nNEXT Next\n', run.scratch / ('%s_%d' % (tag, c0)), env={'TRACE_FILE': str(tf)}, timeout=3000)
        run.add_tlc(res)
        seen = set()
        for r in res.records:
            tid = r[1] + c0
            seen.add(tid)
            meta, text = metas[tid - 1]
            run.cov['modules_checked'] = run.cov.get('modules_checked', 0) + r[2]
            for f in r[3]:
                run.violation('C03:' + classify(f, files[tid - 1], r[3], meta), {'design': meta['name'], 'finding': f, 'text': text[:4000]},
                              '%s: %s in module %s (%s)' % (meta['name'], f[0], f[1], f[2]))
        if len(seen) != len(part):
            raise MachineryError('Trace_WF judged %d of %d files' % (len(seen), len(part)))
        tf.unlink()
    run.cov['programs'] = run.cov.get('programs', 0) + len(files)
    run.cov['traces_validated_against_impl'] += len(files)
    if metas:
        run.sample({'design': metas[0][0]['name'], 'emitted_text_head': metas[0][1][:400]})


def gather(run, designs, again=0):
    items = []
    for d in designs:
        try:
            text = vdesigns.emit(d['top'])
        except Exception as e:
            run.cov['generation_refused'] = run.cov.get('generation_refused', 0) + 1
            continue
        try:
            iface = vdesigns.iface_table(d['top'])
        except Exception:
            iface = []
        items.append(({'name': d['name'], 'kind': d['kind'], 'clocks': d.get('clocks', [])}, text, iface))
        if again and len(items) % again == 0:
            # the same generator object asked again (whole hierarchy, then one sub-block): the answers must be closed texts too
            try:
                import py4hw
                with quiet():
                    g = py4hw.VerilogGenerator(d['top'])
                    g.getVerilogForHierarchy()
                    t2 = g.getVerilogForHierarchy()
                    kids = [c for c in d['top'].children.values() if not g.isInlinable(c)]
                    t3 = g.getVerilogForHierarchy(kids[0]) if kids else None
                items.append(({'name': d['name'] + ' (second call on the same generator)', 'kind': d['kind']}, t2, iface))
                # the design gets a clock driver of its own with another name (same clock wire) after it has been generated once,
                # then a fresh generator is asked: every module and instance below must follow the new name
                try:
                    with quiet():
                        old_drv = d['hw'].clockDriver
                        d['top'].clockDriver = py4hw.ClockDriver('CLOCK_50', wire=old_drv.wire)
                        t4 = py4hw.VerilogGenerator(d['top']).getVerilogForHierarchy()
                    items.append(({'name': d['name'] + ' (after the system clock driver was renamed)', 'kind': d['kind']}, t4, []))
                except Exception:
                    run.cov['generation_refused'] = run.cov.get('generation_refused', 0) + 1
                if t3 is not None:
                    items.append(({'name': d['name'] + ' (sub-block requested from the same generator)', 'kind': d['kind']}, t3, []))
            except Exception:
                run.cov['generation_refused'] = run.cov.get('generation_refused', 0) + 1
    return items


def check(run):
    rng = random.Random(run.seed + 3)
    if run.tier == 'quick':
        designs = vdesigns.library_designs(widths=(1, 2, 3), rng=rng, frac=0.35)
        ncomp, npair = 150, 300
    else:
        designs = vdesigns.library_designs(widths=(1, 2, 3, 4), rng=rng, frac=1.0)
        ncomp, npair = 3000, 2000
    judge(run, gather(run, designs), 'lib')
    comps = []
    with quiet():
        for k in range(ncomp):
            try:
                comps.append(vdesigns.composite(rng, hostile=(k % 2 == 1)))
            except Exception as e:
                run.cov['composite_build_failed'] = run.cov.get('composite_build_failed', 0) + 1
    judge(run, gather(run, comps, again=3), 'comp')
    with quiet():
        pairs = vdesigns.pair_designs(rng, npair)
    judge(run, gather(run, pairs), 'pair')
    with quiet():
        multi = [vdesigns.multiclock(rng) for _ in range(30 if run.tier == 'quick' else 600)]
    judge(run, gather(run, multi), 'multiclock')
    nested = []
    with quiet():
        for _ in range(60 if run.tier == 'quick' else 1500):
            try:
                nested.append(vdesigns.nested_names(rng))
            except Exception:
                run.cov['composite_build_failed'] = run.cov.get('composite_build_failed', 0) + 1
    judge(run, gather(run, nested), 'nested')
    run.assumptions += ['front end implements the Verilog-2001 subset the emitters are allowed to produce; constructs it does not '
                        'implement are counted as unsupported, not judged',
                        'external IP wrappers (black boxes) are outside the catalogue']


def replay(run, path):
    rec = json.loads(open(path).read())
    print(rec['witness'].get('finding') or rec['witness'].get('error'))
    print(rec['witness']['text'][:1500])
    check(run)


def selftest(run):
    good = ("module T (input [1:0] a, output [1:0] r);\nwire [1:0] w_x;\nassign w_x = ~a;\nU i_u(.a(w_x),.r(r));\nendmodule\n"
            "module U (input [1:0] a, output [1:0] r);\nassign r = a;\nendmodule\n")
    bad = good.replace('wire [1:0] w_x;\n', '')                      # undeclared
    bad2 = good.replace('.a(w_x)', '.b(w_x)')                          # no such port
    bad3 = good.replace('output [1:0] r);\nassign r = a;', 'output [2:0] r);\nassign r = a;')   # width mismatch
    before = len(run.violations)
    judge(run, [({'name': 'g', 'kind': 'T'}, good, []), ({'name': 'b1', 'kind': 'T1'}, bad, []), ({'name': 'b2', 'kind': 'T2'}, bad2, []),
                ({'name': 'b3', 'kind': 'T3'}, bad3, [])], 'st')
    sigs = {v['signature'] for v in run.violations}
    ok = len(run.violations) - before >= 3 and not any('g' == v for v in [])
    names = [v['what'] for v in run.violations]
    ok = ok and not any(w.startswith('g:') for w in names)
    run.violations.clear()
    return ok
