"""Designs for the Verilog-generation properties (C01, C03, C19): library blocks alone and compositions.

A design is a dict: name, hw (HWSystem), top (the Logic handed to VerilogGenerator), ins / outs (lists of
(port name, Wire) of the top block), seq (True when it contains state).
"""
import random

from . import library, seqlib
from .common import quiet


def _block_design(cfg, seq=False):
    """the block inside a structural top whose ports are the block's ports (i0.., o0..)"""
    import py4hw
    hw = py4hw.HWSystem()

    class Top(py4hw.Logic):
        def __init__(self, parent, name):
            super().__init__(parent, name)
    top = Top(hw, 'top')
    ins = [hw.wire('i%d' % k, w) for k, w in enumerate(cfg['iw'])]
    outs = [hw.wire('o%d' % k, w) for k, w in enumerate(cfg['ow'])]
    for k, w in enumerate(ins):
        top.addIn('i%d' % k, w)
    for k, w in enumerate(outs):
        top.addOut('o%d' % k, w)
    cfg['mk'](top, ins, outs)
    if len(top.children) != 1:
        return None
    pin = [(p.name, p.wire) for p in top.inPorts]
    pout = [(p.name, p.wire) for p in top.outPorts]
    return {'name': cfg['name'], 'hw': hw, 'top': top, 'ins': pin, 'outs': pout, 'seq': seq, 'kind': cfg['kind']}


def library_designs(widths=(1, 2, 3), rng=None, frac=1.0):
    out = []
    with quiet():
        for cfg in library.catalogue(rng, widths=widths):
            if rng is not None and rng.random() > frac:
                continue
            try:
                d = _block_design(cfg)
            except Exception:
                continue
            if d:
                out.append(d)
        for cfg in seqlib.catalogue(widths=tuple(w for w in widths if w <= 3) or (1,)):
            if rng is not None and rng.random() > frac:
                continue
            try:
                d = _block_design(cfg, seq=True)
            except Exception:
                continue
            if d:
                out.append(d)
    return out


HOSTILE = ['a', 'w_a', 'clk', 'reg', 'wire', 'input', 'module', 'signed', 'begin', 'i_a', 'q', 'r', 'output', 'b']


def composite(rng, hostile=False, alias=False):
    """a structural top with 3-6 children: library blocks, fan-out, feedback through a register, repeated kinds with
    different optional ports, optionally hostile names"""
    import py4hw
    hw = py4hw.HWSystem()
    w = rng.choice([2, 3, 4])
    names = list(HOSTILE)
    rng.shuffle(names)
    used = set()

    def nm(default):
        if hostile and names and rng.random() < 0.6:
            n = names.pop()
        else:
            n = default
        while n in used:
            n = n + '_x'
        used.add(n)
        return n

    class Top(py4hw.Logic):
        def __init__(self, parent, name):
            super().__init__(parent, name)

    top = Top(hw, 'top')
    pa, pb, pe, pr = nm('a'), nm('b'), nm('e'), nm('rst')
    a = top.addIn(pa, hw.wire('x_' + pa, w))
    b = top.addIn(pb, hw.wire('x_' + pb, w))
    e = top.addIn(pe, hw.wire('x_' + pe, 1))
    rs = top.addIn(pr, hw.wire('x_' + pr, 1))
    outs = []
    pool = [a, b]
    pc_ = nm('c')
    narrow = top.addIn(pc_, hw.wire('x_' + pc_, max(1, w - 2)))     # a narrower operand for mixed-width instances

    def wire(default, width=w):
        return top.wire(nm(default), width)
    kinds = ['Add', 'AddC', 'Abs', 'AbsInv', 'Sub', 'Reg', 'RegE', 'RegRV', 'Mux', 'Not', 'Cmp', 'Neg', 'SignExt', 'Counter', 'Xor', 'Eq',
             'Shift', 'Nand', 'Const', 'Concat', 'Range']
    n = rng.randint(3, 6)
    seq = False
    for k in range(n):
        kind = rng.choice(kinds)
        x = rng.choice(pool)
        y = rng.choice(pool)
        if not alias and y is x and len(pool) > 1:
            y = rng.choice([p_ for p_ in pool if p_ is not x])      # two ports of one instance on one wire only when asked for
        iname = nm('u%d' % k)
        r = wire('t%d' % k)
        try:
            if kind == 'Add':
                py4hw.Add(top, iname, x, narrow if rng.random() < 0.4 else y, r)
            elif kind == 'AddC':
                co = wire('co%d' % k, 1)
                py4hw.Add(top, iname, x, y, r, ci=e, co=co)
                outs.append(co)
            elif kind == 'Abs':
                py4hw.Abs(top, iname, x, r)
            elif kind == 'AbsInv':
                inv = wire('inv%d' % k, 1)
                py4hw.Abs(top, iname, x, r, inv)
                outs.append(inv)
            elif kind == 'Sub':
                py4hw.Sub(top, iname, x, y, r)
            elif kind == 'Reg':
                py4hw.Reg(top, iname, x, r)
                seq = True
            elif kind == 'RegE':
                py4hw.Reg(top, iname, x, r, enable=e, reset=rs)
                seq = True
            elif kind == 'RegRV':
                py4hw.Reg(top, iname, x, r, reset=rs, reset_value=rng.choice([1, 2, 3]))
                seq = True
            elif kind == 'Mux':
                py4hw.Mux2(top, iname, e, x, y, r)
            elif kind == 'Not':
                py4hw.Not(top, iname, x, r)
            elif kind == 'Cmp':
                g, q, l = wire('gt%d' % k, 1), wire('eq%d' % k, 1), wire('lt%d' % k, 1)
                py4hw.Comparator(top, iname, x, y, g, q, l)
                outs += [g, q, l]
                r = None
            elif kind == 'Neg':
                py4hw.Neg(top, iname, x, r)
            elif kind == 'SignExt':
                r = wire('se%d' % k, w + 2)
                py4hw.SignExtend(top, iname, x, r)
                outs.append(r)
                r = None
            elif kind == 'Counter':
                py4hw.Counter(top, iname, rs, e, r)
                seq = True
            elif kind == 'Xor':
                py4hw.Xor2(top, iname, x, y, r)
            elif kind == 'Eq':
                r = wire('eq%d' % k, 1)
                py4hw.Equal(top, iname, x, y, r)
                outs.append(r)
                r = None
            elif kind == 'Shift':
                py4hw.ShiftLeftConstant(top, iname, x, rng.choice([0, 1, 2]), r)
            elif kind == 'Nand':
                py4hw.Nand2(top, iname, x, y, r)
            elif kind == 'Const':
                py4hw.Constant(top, iname, rng.choice([0, 1, 5, -1, 300]), r)
            elif kind == 'Concat':
                r = wire('cc%d' % k, 2 * w)
                py4hw.ConcatenateMSBF(top, iname, [x, y], r)
                outs.append(r)
                r = None
            elif kind == 'Range':
                r = wire('rg%d' % k, w - 1)
                py4hw.Range(top, iname, x, w - 1, 1, r)
                outs.append(r)
                r = None
        except Exception:
            continue
        if r is not None:
            pool.append(r)
    # feedback through a register
    if rng.random() < 0.5 and len(pool) > 2:
        fb = wire('fb')
        acc = wire('acc')
        py4hw.Add(top, nm('accadd'), rng.choice(pool), fb, acc)
        py4hw.Reg(top, nm('accreg'), acc, fb, reset=rs)
        pool.append(fb)
        seq = True
    # outputs: every internal result nobody reads plus the last one
    pouts = []
    for k, wv in enumerate(pool[2:] + outs):
        if wv is narrow:
            continue
        if wv in [x[1] for x in pouts]:
            continue
        pn = nm('y%d' % k)
        top.addOut(pn, wv)
        pouts.append((pn, wv))
    pin = [(p.name, p.wire) for p in top.inPorts]
    return {'name': 'composite%s' % ('-hostile' if hostile else ''), 'hw': hw, 'top': top, 'ins': pin, 'outs': pouts, 'seq': seq,
            'kind': 'composite'}


def pair_designs(rng, count, widths=(1, 2, 3), seq_first=False):
    """structural tops that hold TWO configurations of the same library class (different widths, parameters or optional
    ports, e.g. DelayLine(delay=0) next to DelayLine(delay=2)), in either order: whatever a generator remembers per class
    or per module name must not leak from one instance to the other"""
    import py4hw
    groups = {}
    with quiet():
        for cfg in library.catalogue(rng, widths=widths):
            groups.setdefault(cfg['kind'], []).append((cfg, False))
        for cfg in seqlib.catalogue(widths=tuple(w for w in widths if w <= 3) or (1,)):
            groups.setdefault(cfg['kind'], []).append((cfg, True))
    kinds = sorted(k for k, v in groups.items() if len(v) >= 2)
    out = []
    tries = 0
    # first, for every class, its two extreme configurations (first and last of the catalogue) in both orders; then random pairs
    fixed = []
    order = sorted(kinds, key=lambda k_: (not groups[k_][0][1], k_)) if seq_first else kinds      # sequential classes first
    for kind in order:
        g = groups[kind]
        fixed += [(kind, g[0], g[-1]), (kind, g[-1], g[0])]
    while len(out) < count and tries < 20 * count:
        tries += 1
        if fixed:
            kind, (c1, s1), (c2, s2) = fixed.pop(0)
        else:
            kind = rng.choice(kinds)
            (c1, s1), (c2, s2) = rng.sample(groups[kind], 2)
        with quiet():
            hw = py4hw.HWSystem()

            class Top(py4hw.Logic):
                def __init__(self, parent, name):
                    super().__init__(parent, name)
            top = Top(hw, 'top')
            try:
                for tag, cfg in (('p', c1), ('s', c2)):
                    ins = [hw.wire('%si%d' % (tag, k), w) for k, w in enumerate(cfg['iw'])]
                    outs = [hw.wire('%so%d' % (tag, k), w) for k, w in enumerate(cfg['ow'])]
                    for k, w in enumerate(ins):
                        top.addIn('%si%d' % (tag, k), w)
                    for k, w in enumerate(outs):
                        top.addOut('%so%d' % (tag, k), w)
                    before = set(top.children)
                    cfg['mk'](top, ins, outs)
                    for nm_ in set(top.children) - before:          # library helpers name their instance 'dut': make them distinct
                        if nm_ == 'dut':
                            obj = top.children.pop(nm_)
                            obj.name = 'dut_' + tag
                            top.children[obj.name] = obj
            except Exception:
                continue
        if len(top.children) != 2:
            continue
        pin = [(p.name, p.wire) for p in top.inPorts]
        pout = [(p.name, p.wire) for p in top.outPorts]
        out.append({'name': 'pair %s | %s' % (c1['name'], c2['name']), 'hw': hw, 'top': top, 'ins': pin, 'outs': pout,
                    'seq': s1 or s2, 'kind': 'pair:' + kind})
    return out


def multiclock(rng):
    """a structural top with two clock domains: the system clock and a divided clock generated inside the top, which drives a
    sub-block (ClockDriver on the sub-block).  Both domains hold registers / counters / delay lines of the same shapes."""
    import py4hw
    from py4hw.logic.clock import ClockDivider
    hw = py4hw.HWSystem()
    w = rng.choice([2, 3, 4, 8])

    class Dom(py4hw.Logic):
        def __init__(self, parent, name, a, e, q, kinds):
            super().__init__(parent, name)
            self.addIn('a', a)
            self.addIn('e', e)
            self.addOut('q', q)
            prev = a
            for k, kind in enumerate(kinds):
                nxt = q if k == len(kinds) - 1 else self.wire('m%d' % k, w)
                if kind == 'Reg':
                    py4hw.Reg(self, 'u%d' % k, prev, nxt)
                elif kind == 'RegE':
                    py4hw.Reg(self, 'u%d' % k, prev, nxt, enable=e)
                elif kind == 'Delay':
                    py4hw.DelayLine(self, 'u%d' % k, prev, e, None, nxt, 2)
                elif kind == 'Not':
                    py4hw.Not(self, 'u%d' % k, prev, nxt)
                prev = nxt

    class Top(py4hw.Logic):
        def __init__(self, parent, name, a, e, x, y):
            super().__init__(parent, name)
            self.addIn('a', a)
            self.addIn('e', e)
            self.addOut('x', x)
            self.addOut('y', y)
            kinds = [rng.choice(['Reg', 'RegE', 'Delay', 'Not']) for _ in range(rng.randint(1, 3))]
            if not any(k != 'Not' for k in kinds):
                kinds.append('Reg')
            slow = self.wire('slow')
            ClockDivider(self, 'div', 50E6, rng.choice([12.5E6, 6.25E6]), slow)
            fast = Dom(self, 'fast', a, e, x, kinds)
            slowdom = Dom(self, 'slowdom', a, e, y, kinds if rng.random() < 0.7 else list(reversed(kinds)))
            slowdom.clockDriver = py4hw.ClockDriver(rng.choice(['slow_clk', 'clk2']), 12.5E6, wire=slow)
    a, e, x, y = hw.wire('a', w), hw.wire('e'), hw.wire('x', w), hw.wire('y', w)
    top = Top(hw, 'top', a, e, x, y)
    pin = [(p.name, p.wire) for p in top.inPorts]
    pout = [(p.name, p.wire) for p in top.outPorts]
    return {'name': 'two clock domains (w=%d)' % w, 'hw': hw, 'top': top, 'ins': pin, 'outs': pout, 'seq': True, 'kind': 'multiclock',
            'clocks': ['clk', 'slow_clk', 'clk2']}


def nested_names(rng):
    """two hierarchy levels of user blocks whose local wires, ports and instances draw their names from ONE small pool: a local
    wire of a stage is called like the parent-scope wire bound to one of its ports, like a port of the parent, like an instance"""
    import py4hw
    hw = py4hw.HWSystem()
    w = rng.choice([2, 3, 4])
    pool = ['t', 'd', 'q', 'a', 'x', 'link', 's']

    class Stage(py4hw.Logic):
        def __init__(self, parent, name, a, q, kinds):
            super().__init__(parent, name)
            self.addIn(rng.choice(['a', 'd', 'x']), a)
            self.addOut(rng.choice(['q', 's', 'link']), q)
            prev = a
            used = set()
            for k, kind in enumerate(kinds):
                if k == len(kinds) - 1:
                    nxt = q
                else:
                    nm = rng.choice([n for n in pool if n not in used] or ['m%d' % k])
                    used.add(nm)
                    nxt = self.wire(nm, w)
                inst = rng.choice([n for n in pool if n not in self.children] or ['u%d' % k])
                if kind == 'Not':
                    py4hw.Not(self, inst, prev, nxt)
                elif kind == 'Reg':
                    py4hw.Reg(self, inst, prev, nxt)
                else:
                    py4hw.Add(self, inst, prev, a, nxt)
                prev = nxt

    class Top(py4hw.Logic):
        def __init__(self, parent, name, a, y):
            super().__init__(parent, name)
            self.addIn(rng.choice(['a', 'x', 'd']), a)
            self.addOut(rng.choice(['q', 'y', 's']), y)
            n = rng.randint(2, 3)
            prev = a
            used = set()
            for k in range(n):
                if k == n - 1:
                    nxt = y
                else:
                    nm = rng.choice([x for x in pool if x not in used] or ['l%d' % k])
                    used.add(nm)
                    nxt = self.wire(nm, w)
                inst = rng.choice([x for x in pool if x not in self.children] or ['st%d' % k])
                Stage(self, inst, prev, nxt, [rng.choice(['Not', 'Reg', 'Add']) for _ in range(rng.randint(2, 3))])
                prev = nxt
    a, y = hw.wire(rng.choice(['a', 't', 'x']), w), hw.wire(rng.choice(['y', 'q', 't2']), w)
    top = Top(hw, 'top', a, y)
    pin = [(p.name, p.wire) for p in top.inPorts]
    pout = [(p.name, p.wire) for p in top.outPorts]
    return {'name': 'nested user blocks with shared names (w=%d)' % w, 'hw': hw, 'top': top, 'ins': pin, 'outs': pout, 'seq': True,
            'kind': 'nested-names'}


def emit(top, whole=True):
    import py4hw
    with quiet():
        g = py4hw.VerilogGenerator(top)
        return g.getVerilogForHierarchy() if whole else g.getVerilog()


def iface_table(top):
    """interface (port name, direction, width) of every object that is emitted as its own module"""
    import py4hw
    from py4hw.rtl_generation import getVerilogModuleName, getPortName
    g = py4hw.VerilogGenerator(top)
    out = []

    def walk(o, is_top):
        if not is_top and g.isInlinable(o):
            return
        ports = [{'n': getPortName(p), 'dir': 'input', 'w': p.wire.getWidth()} for p in o.inPorts] + \
                [{'n': getPortName(p), 'dir': 'output', 'w': p.wire.getWidth()} for p in o.outPorts]
        out.append({'mod': getVerilogModuleName(o, noInstanceNumber=is_top), 'path': o.getFullPath(), 'ports': ports})
        for c in o.children.values():
            walk(c, False)
    with quiet():
        walk(top, True)
    return out
