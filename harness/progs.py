"""Rendering of ProgSpace programs (JSON from TLC) into py4hw.Logic subclasses, and a reference interpreter
used ONLY to decide whether an input sequence stays inside the domain the property states (every intermediate value
non-negative and below 2^32, shift amounts below 32, no division by zero).  The verdicts never use the interpreter:
they compare the real Python execution in the simulator with the emitted Verilog executed by TLC."""
import ast
import importlib
import sys

PYOPS = {'+': ast.Add, '-': ast.Sub, '*': ast.Mult, '//': ast.FloorDiv, '%': ast.Mod, '&': ast.BitAnd, '|': ast.BitOr, '^': ast.BitXor,
         '<<': ast.LShift, '>>': ast.RShift}
CMPS = {'==': ast.Eq, '!=': ast.NotEq, '<': ast.Lt, '<=': ast.LtE, '>': ast.Gt, '>=': ast.GtE}


def _attr(name):
    return ast.Attribute(value=ast.Name(id='self', ctx=ast.Load()), attr=name, ctx=ast.Load())


def _get(port):
    return ast.Call(func=ast.Attribute(value=_attr(port), attr='get', ctx=ast.Load()), args=[], keywords=[])


class Renderer:
    def __init__(self, kind):
        self.kind = kind            # 'clock' | 'propagate'

    def expr(self, e):
        k = e[0]
        if k in ('a', 'b'):
            return _get(k)
        if k == 's':
            return _attr('s') if self.kind == 'clock' else _attr('k')
        if k == 't':
            return ast.Name(id='t', ctx=ast.Load())
        if k == 'k':
            return _attr('k')
        if k == 'c':
            return ast.Constant(value=e[1])
        if k == 'un':
            return ast.UnaryOp(op=ast.Invert() if e[1] == '~' else ast.USub(), operand=self.expr(e[2]))
        if k == 'bin':
            return ast.BinOp(left=self.expr(e[2]), op=PYOPS[e[1]](), right=self.expr(e[3]))
        if k == 'tern':
            return ast.IfExp(test=self.cond(e[1]), body=self.expr(e[2]), orelse=self.expr(e[3]))
        if k == 'val':
            return self.cond(e[1])
        raise ValueError(e)

    def cond(self, c):
        k = c[0]
        if k == 'cmp':
            return ast.Compare(left=self.expr(c[2]), ops=[CMPS[c[1]]()], comparators=[self.expr(c[3])])
        if k == 'cmp2':
            # chained comparison  e1 op1 e2 op2 e3
            return ast.Compare(left=self.expr(c[2]), ops=[CMPS[c[1]](), CMPS[c[3]]()], comparators=[self.expr(c[4]), self.expr(c[5])])
        if k in ('and', 'or'):
            # a right-nested run of the same operator is one Python chain:  x and y and z
            vals = [self.cond(c[1])]
            rest = c[2]
            while rest[0] == k:
                vals.append(self.cond(rest[1]))
                rest = rest[2]
            vals.append(self.cond(rest))
            return ast.BoolOp(op=ast.And() if k == 'and' else ast.Or(), values=vals)
        if k == 'not':
            return ast.UnaryOp(op=ast.Not(), operand=self.cond(c[1]))
        if k == 'truth':
            return self.expr(c[1])
        raise ValueError(c)

    def target_assign(self, tgt, value):
        if tgt == 'r':
            meth = 'prepare' if self.kind == 'clock' else 'put'
            return ast.Expr(value=ast.Call(func=ast.Attribute(value=_attr('r'), attr=meth, ctx=ast.Load()), args=[value], keywords=[]))
        if tgt == 's' and self.kind == 'clock':
            return ast.Assign(targets=[ast.Attribute(value=ast.Name(id='self', ctx=ast.Load()), attr='s', ctx=ast.Store())], value=value)
        return ast.Assign(targets=[ast.Name(id='t', ctx=ast.Store())], value=value)

    def stmts(self, xs):
        out = []
        for s in xs:
            k = s[0]
            if k == 'assign':
                out.append(self.target_assign(s[1], self.expr(s[2])))
            elif k == 'aug':
                if self.kind == 'clock':
                    out.append(ast.AugAssign(target=ast.Attribute(value=ast.Name(id='self', ctx=ast.Load()), attr='s', ctx=ast.Store()),
                                             op=PYOPS[s[2]](), value=self.expr(s[3])))
                else:
                    out.append(ast.AugAssign(target=ast.Name(id='t', ctx=ast.Store()), op=PYOPS[s[2]](), value=self.expr(s[3])))
            elif k == 'if':
                node = ast.If(test=self.cond(s[1]), body=self.stmts(s[2]) or [ast.Pass()], orelse=[])
                cur = node
                for c2, body in s[3]:
                    n2 = ast.If(test=self.cond(c2), body=self.stmts(body) or [ast.Pass()], orelse=[])
                    cur.orelse = [n2]
                    cur = n2
                cur.orelse = self.stmts(s[4])
                out.append(node)
            elif k in ('match', 'matchc'):
                cases = [ast.match_case(pattern=ast.MatchValue(value=ast.Constant(value=c)), guard=None, body=self.stmts(body) or [ast.Pass()])
                         for c, body in s[2]]
                if k == 'match':
                    cases.append(ast.match_case(pattern=ast.MatchAs(pattern=None, name=None), guard=None, body=self.stmts(s[3]) or [ast.Pass()]))
                else:
                    # capture pattern: the subject value is bound to a name the body reads
                    grab = ast.Assign(targets=[ast.Name(id='t', ctx=ast.Store())], value=ast.Name(id='other', ctx=ast.Load()))
                    cases.append(ast.match_case(pattern=ast.MatchAs(pattern=None, name='other'), guard=None, body=[grab] + self.stmts(s[3])))
                out.append(ast.Match(subject=self.expr(s[1]), cases=cases))
            else:
                raise ValueError(s)
        return out


def source(name, prog, kind):
    body = Renderer(kind).stmts(prog)
    fn = ast.FunctionDef(name=kind, args=ast.arguments(posonlyargs=[], args=[ast.arg(arg='self')], kwonlyargs=[], kw_defaults=[], defaults=[]),
                         body=body, decorator_list=[], returns=None, type_params=[])
    mod = ast.Module(body=[fn], type_ignores=[])
    ast.fix_missing_locations(mod)
    meth = ast.unparse(mod)
    lines = ['import py4hw', '', '', 'class %s(py4hw.Logic):' % name,
             '    def __init__(self, parent, name, a, b, r, k):',
             '        super().__init__(parent, name)',
             "        self.a = self.addIn('a', a)",
             "        self.b = self.addIn('b', b)",
             "        self.r = self.addOut('r', r)",
             '        self.k = k']
    if kind == 'clock':
        lines.append('        self.s = 0')
    lines.append('')
    lines += ['    ' + l for l in meth.splitlines()]
    return '\n'.join(lines) + '\n'


def load(pkgdir, modname, text):
    (pkgdir / (modname + '.py')).write_text(text)
    if str(pkgdir) not in sys.path:
        sys.path.insert(0, str(pkgdir))
    importlib.invalidate_caches()
    return importlib.import_module(modname)


# ------------------------------------------------------------------ domain interpreter
class OutOfDomain(Exception):
    pass


# "the domain Verilog gives them": every intermediate value must be non-negative and fit the width IEEE 1364 gives the
# expression node it appears in (never more than 31 bits: integers and unsized literals are signed 32-bit).  The sizing
# below follows 1364-2005 section 5.4 for the constructs the transpiler emits: ports are unsigned of their declared width,
# integers (s, t), literals and the constructor constant k are 32 bit; + - * / % & | ^ ~ and unary minus are as wide as
# their context; shift amounts, conditions and the operands of logical operators are self-determined; the two operands of
# a comparison are sized together; a case subject is sized with its (32-bit) labels.
# The interpreter only DISCARDS input sequences (a smaller domain is always sound); verdicts never use it.
INTW = 32
CAP = 31


class Interp:
    def __init__(self, kind, k, widths=(32, 32, 32)):
        self.kind = kind
        self.k = k
        self.s = 0
        self.wa, self.wb, self.wr = widths

    def selfw(self, e):
        t = e[0]
        if t == 'a':
            return self.wa
        if t == 'b':
            return self.wb
        if t in ('s', 't', 'k', 'c'):
            return INTW
        if t == 'un':
            return self.selfw(e[2])
        if t == 'bin':
            if e[1] in ('<<', '>>'):
                return self.selfw(e[2])
            return max(self.selfw(e[2]), self.selfw(e[3]))
        if t == 'tern':
            return max(self.selfw(e[2]), self.selfw(e[3]))
        if t == 'val':
            return 1
        raise ValueError(e)

    @staticmethod
    def chk(v, w):
        if v < 0 or v >= (1 << min(w, CAP)):
            raise OutOfDomain()
        return v

    def expr(self, e, env, w=None):
        if w is None:
            w = self.selfw(e)
        w = max(w, self.selfw(e))
        t = e[0]
        if t in ('a', 'b'):
            return self.chk(env[t], w)
        if t == 's':
            return self.chk(self.s if self.kind == 'clock' else self.k, w)
        if t == 't':
            return self.chk(env['t'], w)
        if t == 'k':
            return self.chk(self.k, w)
        if t == 'c':
            return self.chk(e[1], w)
        if t == 'un':
            v = self.expr(e[2], env, w)
            return self.chk(~v if e[1] == '~' else -v, w)
        if t == 'bin':
            op = e[1]
            if op in ('<<', '>>'):
                x = self.expr(e[2], env, w)
                y = self.expr(e[3], env, None)          # shift amount: self-determined
                if y >= 32:
                    raise OutOfDomain()
                return self.chk(x << y if op == '<<' else x >> y, w)
            x = self.expr(e[2], env, w)
            y = self.expr(e[3], env, w)
            if op in ('//', '%') and y == 0:
                raise OutOfDomain()
            r = {'+': x + y, '-': x - y, '*': x * y, '//': x // y if y else 0, '%': x % y if y else 0, '&': x & y, '|': x | y, '^': x ^ y}[op]
            return self.chk(r, w)
        if t == 'tern':
            return self.expr(e[2], env, w) if self.cond(e[1], env) else self.expr(e[3], env, w)
        if t == 'val':
            return 1 if self.cond(e[1], env) else 0
        raise ValueError(e)

    def cond(self, c, env):
        t = c[0]
        if t == 'cmp':
            w = max(self.selfw(c[2]), self.selfw(c[3]))
            x, y = self.expr(c[2], env, w), self.expr(c[3], env, w)
            return {'==': x == y, '!=': x != y, '<': x < y, '<=': x <= y, '>': x > y, '>=': x >= y}[c[1]]
        if t == 'cmp2':
            w = max(self.selfw(c[2]), self.selfw(c[4]), self.selfw(c[5]))
            x, y, z = self.expr(c[2], env, w), self.expr(c[4], env, w), self.expr(c[5], env, w)
            rel = {'==': lambda p, q: p == q, '!=': lambda p, q: p != q, '<': lambda p, q: p < q, '<=': lambda p, q: p <= q,
                   '>': lambda p, q: p > q, '>=': lambda p, q: p >= q}
            return rel[c[1]](x, y) and rel[c[3]](y, z)
        if t == 'and':
            # both operands are evaluated in Verilog: both must be in the domain
            x = self.cond(c[1], env)
            y = self.cond(c[2], env)
            return x and y
        if t == 'or':
            x = self.cond(c[1], env)
            y = self.cond(c[2], env)
            return x or y
        if t == 'not':
            return not self.cond(c[1], env)
        return self.expr(c[1], env, None) != 0

    def target_width(self, tgt):
        return self.wr if tgt == 'r' else INTW

    def run(self, xs, env):
        for s in xs:
            t = s[0]
            if t == 'assign':
                v = self.expr(s[2], env, self.target_width(s[1]))
                self.chk(v, self.target_width(s[1]))
                if s[1] == 's' and self.kind == 'clock':
                    self.s = v
                elif s[1] != 'r':
                    env['t'] = v
            elif t == 'aug':
                cur = self.s if self.kind == 'clock' else env['t']
                v = self.expr(['bin', s[2], ['c', cur], s[3]], env, INTW)
                if self.kind == 'clock':
                    self.s = v
                else:
                    env['t'] = v
            elif t == 'if':
                if self.cond(s[1], env):
                    self.run(s[2], env)
                else:
                    done = False
                    for c2, body in s[3]:
                        if self.cond(c2, env):
                            self.run(body, env)
                            done = True
                            break
                    if not done:
                        self.run(s[4], env)
            elif t in ('match', 'matchc'):
                v = self.expr(s[1], env, INTW)
                hit = False
                for c, body in s[2]:
                    if v == c:
                        self.run(body, env)
                        hit = True
                        break
                if not hit:
                    if t == 'matchc':
                        env['t'] = v
                    self.run(s[3], env)

    def cycle_in_domain(self, prog, a, b):
        try:
            self.run(prog, {'a': a, 'b': b, 't': 0})
            return True
        except OutOfDomain:
            return False


def productions(prog):
    """set of (parent production, child production) pairs appearing in a program (coverage obligation)"""
    out = set()

    def e(x, parent):
        tag = x[0] if x[0] not in ('bin', 'un', 'cmp') else '%s%s' % (x[0], x[1])
        out.add((parent, tag))
        for y in x[1:]:
            if isinstance(y, list) and y and isinstance(y[0], str):
                e(y, tag)

    def st(xs, parent):
        for s in xs:
            tag = s[0] + (':' + s[1] if s[0] in ('assign',) else '')
            out.add((parent, tag))
            if s[0] == 'assign':
                e(s[2], tag)
            elif s[0] == 'aug':
                e(s[3], tag)
            elif s[0] == 'if':
                e(s[1], tag)
                st(s[2], tag)
                for c2, body in s[3]:
                    e(c2, 'elif')
                    st(body, 'elif')
                st(s[4], 'else')
            elif s[0] in ('match', 'matchc'):
                e(s[1], tag)
                for c, body in s[2]:
                    st(body, 'case')
                st(s[3], 'default')
    st(prog, 'body')
    return out
