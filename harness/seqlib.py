"""Catalogue of sequential library blocks (C09): (kind, parameters, widths) -> constructor call.
Port conventions match spec/SeqLib.tla.  No semantics here."""
import itertools


def _cfg(kind, iw, ow, mk, c, tag=''):
    name = '%s[%s->%s]%s' % (kind, ','.join(map(str, iw)), ','.join(map(str, ow)), tag)
    return {'kind': kind, 'name': name, 'c': c, 'iw': list(iw), 'ow': list(ow), 'mk': mk}


def catalogue(widths=(1, 2), big=False):
    import py4hw
    P = py4hw
    out = []

    def add(*a, **k):
        out.append(_cfg(*a, **k))
    for w in widths:
        for e in (0, 1):
            for r in (0, 1):
                for rv in sorted({0, 1, (1 << w) - 1}):
                    for wd in sorted({w, w + 1} if big else {w}):
                        add('Reg', [wd] + [1] * e + [1] * r, [w],
                            lambda hw, i, o, e=e, r=r, rv=rv: P.Reg(hw, 'dut', i[0], o[0], enable=i[1] if e else None,
                                                                    reset=i[1 + e] if r else None, reset_value=rv),
                            {'e': e, 'r': r, 'rv': rv}, ' e=%d r=%d rv=%d' % (e, r, rv))
        for r in (0, 1):
            for i_ in (0, 1):
                add('Counter', [1] * r + [1] * i_, [w],
                    lambda hw, i, o, r=r, i_=i_: P.Counter(hw, 'dut', i[0] if r else None, i[r] if i_ else None, o[0]),
                    {'r': r, 'i': i_}, ' r=%d i=%d' % (r, i_))
        add('StepUpCounter', [1, 1, w], [w], lambda hw, i, o: P.StepUpCounter(hw, 'dut', i[0], i[1], i[2], o[0]), {'x': 0})
        for delay in (0, 1, 2, 3):
            for e in (0, 1):
                for r in (0, 1):
                    if w * delay <= 6:
                        add('DelayLine', [w] + [1] * e + [1] * r, [w],
                            lambda hw, i, o, e=e, r=r, delay=delay: P.DelayLine(hw, 'dut', i[0], i[1] if e else None,
                                                                               i[1 + e] if r else None, o[0], delay),
                            {'delay': delay, 'e': e, 'r': r}, ' delay=%d e=%d r=%d' % (delay, e, r))
        for n in (1, 2):
            add('PipelinePhase', [1] + [w] * n, [w] * n, lambda hw, i, o: P.PipelinePhase(hw, 'dut', i[0], list(i[1:]), list(o)), {'x': 0},
                ' n=%d' % n)
        for depth in (1, 2, 3):
            if w * depth <= 6:
                add('ShiftRegisterBidirectional', [w, w, 1, 1], [w, w],
                    lambda hw, i, o, depth=depth: P.ShiftRegisterBidirectional(hw, 'dut', i[0], i[1], o[0], o[1], i[2], i[3], depth),
                    {'depth': depth}, ' depth=%d' % depth)
                add('Stack', [w, 1, 1], [w],
                    lambda hw, i, o, depth=depth: P.Stack_ShiftRegister(hw, 'dut', i[0], o[0], i[1], i[2], None, None, depth),
                    {'depth': depth}, ' depth=%d' % depth)
        for aw in (1, 2):
            if (1 << aw) * w <= 8:
                add('SynchronousMemory', [aw, aw, 1, w], [w],
                    lambda hw, i, o: P.SynchronousMemory(hw, 'dut', i[0], i[1], i[2], o[0], i[3]), {'x': 0}, ' aw=%d' % aw)
    for aw, w in ((1, 1),) + (((1, 2), (2, 1)) if big else ()):
        add('DualPortSynchronousMemory', [aw, aw, 1, w, aw, aw, 1, w], [w, w],
            lambda hw, i, o: P.DualPortSynchronousMemory(hw, 'dut', i[0], i[1], i[2], o[0], i[3], i[4], i[5], i[6], o[1], i[7]),
            {'x': 0}, ' aw=%d w=%d' % (aw, w))
    for e in (0, 1):
        for r in (0, 1):
            add('TReg', [1] + [1] * e + [1] * r, [1],
                lambda hw, i, o, e=e, r=r: P.TReg(hw, 'dut', i[0], o[0], enable=i[1] if e else None, reset=i[1 + e] if r else None),
                {'e': e, 'r': r}, ' e=%d r=%d' % (e, r))
    for mod in (1, 2, 3, 4, 5, 7):
        qw = max(1, (mod - 1).bit_length())
        for extra in (0, 1):
            add('ModuloCounter', [1, 1], [qw + extra, 1],
                lambda hw, i, o, mod=mod: P.ModuloCounter(hw, 'dut', mod, i[0], i[1], o[0], o[1]), {'mod': mod}, ' mod=%d' % mod)
    for d in ('pos', 'neg', 'both'):
        add('EdgeDetector', [1], [1], lambda hw, i, o, d=d: P.EdgeDetector(hw, 'dut', i[0], o[0], d), {'dir': d}, ' ' + d)
    for n in (1, 2, 3, 5):
        for r in (0, 1):
            add('ClockDivider', [1] * r, [1],
                lambda hw, i, o, n=n, r=r: P.ClockDivider(hw, 'dut', 2 * n * 10, 10, o[0], reset=i[0] if r else None),
                {'n': n, 'r': r}, ' n=%d r=%d' % (n, r))
    return out


class BlockRaised(Exception):
    """the real block raised while being built or clocked (the message names the exception)"""


def run_history(cfg, hist):
    """drive the real block from power-up along hist (list of input vectors); rows = in + outs_before + outs_after"""
    try:
        return _run_history(cfg, hist)
    except Exception as e:
        raise BlockRaised('%s: %s' % (type(e).__name__, str(e)[:120]))


def _run_history(cfg, hist, chunked=None):
    import py4hw
    from .common import quiet
    if chunked is None:
        chunked = (len(hist) + sum(hist[0]) if hist else 0) % 2 == 1      # half of the histories, reproducibly
    with quiet():
        hw = py4hw.HWSystem()
        ins = [hw.wire('i%d' % k, w) for k, w in enumerate(cfg['iw'])]
        outs = [hw.wire('o%d' % k, w) for k, w in enumerate(cfg['ow'])]
        cfg['mk'](hw, ins, outs)
        sim = hw.getSimulator()
        seen = []

        class L:
            def simulatorUpdated(self_):
                seen.append([o.get() for o in outs])
        sim.addListener(L())
        rows = []
        k = 0
        while k < len(hist):
            # maximal runs of identical input vectors may be simulated by ONE clk(n) call; the per-cycle outputs then come
            # from a simulator listener (n single-cycle calls and one n-cycle call are the same to the user)
            n = 1
            if chunked:
                while k + n < len(hist) and hist[k + n] == hist[k] and n < 4:
                    n += 1
            for w, x in zip(ins, hist[k]):
                w.put(x)
            sim.propagateAll()
            pre = [o.get() for o in outs]
            del seen[:]
            sim.clk(n)
            post = list(seen)
            if len(post) != n:
                post = (post + [[o.get() for o in outs]] * n)[:n]
            for j in range(n):
                rows.append(list(hist[k + j]) + (pre if j == 0 else post[j - 1]) + post[j])
            k += n
    return rows
