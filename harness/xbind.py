"""Binding X for library blocks: the leaf netlist a constructor really built is extracted from the live objects
(harness/netlist.py: attribute reads only) together with the evaluation order of the real simulator, and TLC
executes it with the Kernel/PrimSem semantics for ALL input vectors (combinational: MC_NetComb) or in product
with the reference state machine over all reachable states (sequential: MC_NetSeq).

A disagreement here while the measured tables (binding V) agree means PrimSem or the extraction drifted from
the code: it is reported as a machinery failure, not as a violation.  A disagreement that binding V shows as well
is a violation found for every input at once."""
import json

from . import library, netlist
from .common import quiet, MachineryError
from .tlc import run_tlc


def _strip_net(net):
    return {'width': net['width'], 'doms': [{'en': d['en']} for d in net['doms']],
            'leaves': [{'kind': l['kind'], 'ins': l['ins'], 'outs': l['outs'], 'p': l.get('p', []), 'dom': l.get('dom', 0)}
                       for l in net['leaves']]}


def extract_cfg(cfg, inst=None):
    """-> record for MC_NetComb / MC_NetSeq, or (None, reason)"""
    with quiet():
        try:
            inst = inst or library.instantiate(cfg)
        except library.Skip as e:
            return None, 'constructor: %s' % e
        hw, ins, outs = inst['hw'], inst['ins'], inst['outs']
        try:
            sim = hw.getSimulator()
        except Exception as e:
            return None, 'getSimulator: %s' % e
        try:
            net, wires = netlist.extract(hw)
        except netlist.Unsupported as e:
            return None, str(e)
        leaves = hw.allLeaves()
        idx = {id(o): k + 1 for k, o in enumerate(leaves)}
        order = [idx[id(o)] for o in sim.propagatables if id(o) in idx]
        if len(order) != len([o for o in sim.propagatables]):
            return None, 'propagatable outside allLeaves()'
        wid = {id(w): k + 1 for k, w in enumerate(wires)}
    if not net['leaves']:
        return None, 'no leaves'
    return {'kind': cfg['kind'], 'c': cfg['c'], 'iw': cfg['iw'], 'ow': cfg['ow'], 'net': _strip_net(net), 'order': order,
            'ins': [wid[id(w)] for w in ins], 'outs': [wid[id(w)] for w in outs]}, None


def comb(run, cfgs, maxvecs=1 << 12, tag='x'):
    """exhaustive execution of the extracted netlists of the given catalogue entries"""
    recs, metas, refused = [], [], {}
    for cfg in cfgs:
        total = 1
        for w in cfg['iw']:
            total <<= w
        if total > maxvecs:
            continue
        rec, why = extract_cfg(cfg)
        if rec is None:
            refused[why.split(' (')[0][:60]] = refused.get(why.split(' (')[0][:60], 0) + 1
            continue
        recs.append(rec)
        metas.append(cfg)
    run.note('x_netlists', len(recs))
    run.note('x_not_extractable', refused)
    if not recs:
        return []
    cf = run.scratch / (tag + '_cfgs.json')
    cf.write_text(json.dumps(recs))
    res = run_tlc('MC_NetComb', 'CONSTANTS\n MaxPasses = 1000\nINIT Init\nNEXT Next\nINVARIANT Judge\nVIEW View\n', run.scratch / tag, env={'CFG_FILE': str(cf)}, timeout=3000)
    run.add_tlc(res)
    judged = set()
    bad = {}
    for r in res.records:
        if r[0] == 'J':
            judged.add(r[1])
            if not r[2]:
                raise MachineryError('X: evaluation order of %s is not topological for its extracted netlist' % metas[r[1] - 1]['name'])
        elif r[0] == 'V':
            bad.setdefault(r[1], []).append(r[2:])
    if len(judged) != len(recs):
        raise MachineryError('MC_NetComb judged %d of %d netlists' % (len(judged), len(recs)))
    run.cov['x_netlist_vectors'] = run.cov.get('x_netlist_vectors', 0) + res.distinct
    cf.unlink()
    return [(metas[k - 1], recs[k - 1], v) for k, v in sorted(bad.items())]


def seq(run, cfgs, tag='xs', maxstates=None):
    recs, metas, refused = [], [], {}
    for cfg in cfgs:
        rec, why = extract_cfg(cfg)
        if rec is None:
            refused[why.split(' (')[0][:60]] = refused.get(why.split(' (')[0][:60], 0) + 1
            continue
        recs.append(rec)
        metas.append(cfg)
    run.note('x_netlists', len(recs))
    run.note('x_not_extractable', refused)
    if not recs:
        return []
    cf = run.scratch / (tag + '_cfgs.json')
    cf.write_text(json.dumps(recs))
    res = run_tlc('MC_NetSeq', 'CONSTANTS\n MaxPasses = 1000\nINIT Init\nNEXT Next\nINVARIANT Done\nVIEW View\n', run.scratch / tag, env={'CFG_FILE': str(cf)}, timeout=3000)
    run.add_tlc(res)
    judged = set()
    bad = {}
    for r in res.records:
        if r[0] == 'J':
            judged.add(r[1])
        elif r[0] == 'V':
            bad.setdefault(r[1], []).append(r[2:])
    if len(judged) != len(recs):
        raise MachineryError('MC_NetSeq judged %d of %d netlists' % (len(judged), len(recs)))
    run.cov['x_product_states'] = run.cov.get('x_product_states', 0) + res.distinct
    cf.unlink()
    return [(metas[k - 1], recs[k - 1], v) for k, v in sorted(bad.items())]
