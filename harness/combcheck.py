"""Shared driver for the combinational library properties (C07 arithmetic, C08 logic, C14 fixed point)."""
import json
import random

from . import library, netlist
from .common import quiet, MachineryError
from .tlc import run_tlc, run_model


def record_table(cfg, rng, limit):
    """truth table of one configuration measured on the real simulator -> table dict or None"""
    with quiet():
        try:
            inst = library.instantiate(cfg)
        except library.Skip as e:
            return None, str(e)
        hw, ins, outs = inst['hw'], inst['ins'], inst['outs']
        try:
            sim = hw.getSimulator()
        except Exception as e:
            return None, 'RAISED getSimulator: %s: %s' % (type(e).__name__, e)
        # many-input configurations: boundary, one-hot / one-cold and a few hundred random vectors are enough
        vecs, full = library.vectors(cfg['iw'], rng, limit if len(cfg['iw']) < 7 else min(limit, 500))
        rows = []
        for v in vecs:
            for w, x in zip(ins, v):
                w.put(x)
            try:
                sim.clk(1)
            except Exception as e:
                return None, 'RAISED clk: %s: %s on inputs %s' % (type(e).__name__, e, v)
            rows.append(list(v) + [o.get() for o in outs])
    return {'kind': cfg['kind'], 'c': cfg['c'], 'iw': cfg['iw'], 'ow': cfg['ow'], 'full': 1 if full else 0, 'rows': rows}, None


def raised(run, cfg, why):
    """a block that was built but raises when the simulator is created or clocked does not compute its function"""
    run.violation('%s:%s:raises' % (run.pid, cfg['kind']), {'block': cfg['name'], 'params': cfg['c'], 'error': why},
                  '%s raises when simulated (%s)' % (cfg['name'], why[:160]))


def sanity(run):
    """the references themselves: algebraic identities checked by TLC (failure = machinery failure)"""
    mod = '---- MODULE RefSanity ----\nEXTENDS Library\nASSUME RefSanity({1, 2, 3, 4})\nVARIABLE x\nInit == x = 0\nNext == UNCHANGED x\n====\n'
    res = run_tlc('RefSanity', 'INIT Init\nNEXT Next\n', run.scratch / 'sanity', extra_modules={'RefSanity': mod})
    run.add_tlc(res)


def run_group(run, group, widths, limit, big=False, wide=(), wide_frac=0.25):
    rng = random.Random(run.seed + hash(group) % 1000)
    cfgs = library.catalogue(rng, widths=widths, groups=(group,), big=big)
    tables = []
    metas = []
    skipped = {}
    for cfg in cfgs:
        t, why = record_table(cfg, rng, limit)
        if t is None:
            if why.startswith('RAISED'):
                raised(run, cfg, why)
            else:
                skipped[cfg['name']] = why
            continue
        tables.append(t)
        metas.append(cfg)
    # wide instances: boundary + random vectors only
    for w in wide:
        for cfg in library.catalogue(rng, widths=(w,), groups=(group,)):
            eff = [cfg['iw'][a - 1] for a in cfg['c']['alias']] if 'alias' in cfg['c'] else cfg['iw']      # widths per operand
            if max(cfg['iw'] + cfg['ow']) > 28 or (cfg['kind'] in ('Mul', 'SignedMul', 'FixedPointMult') and sum(eff[:2]) > 30):
                continue
            if rng.random() > wide_frac:
                continue
            t, why = record_table(cfg, rng, 160)
            if t is None:
                if why.startswith('RAISED'):
                    raised(run, cfg, why)
                else:
                    skipped[cfg['name']] = why
                continue
            tables.append(t)
            metas.append(cfg)
    if not tables:
        raise MachineryError('no tables recorded for ' + group)
    run.note('configurations', len(tables))
    run.note('configurations_refused_by_constructor', len(skipped))
    if skipped:
        run.note('refused_examples', dict(list(skipped.items())[:5]))
    judge(run, tables, metas, group)
    return tables, metas


def run_x(run, group, widths, maxvecs):
    """binding X: TLC executes the extracted leaf netlist of every configuration for ALL input vectors (MC_NetComb);
    every vector on which the netlist disagrees with the reference is then applied to the real block and judged by
    Trace_Comb, so a verdict always rests on an observation of the real simulator."""
    from . import xbind
    cfgs = library.catalogue(random.Random(run.seed), widths=widths, groups=(group,))
    bad = xbind.comb(run, cfgs, maxvecs, tag='x_' + group)
    tabs, metas = [], []
    for cfg, rec, vs in bad[:200]:
        with quiet():
            inst = library.instantiate(cfg)
            sim = inst['hw'].getSimulator()
            rows = []
            for v in vs[:64]:
                for w, x in zip(inst['ins'], v[0]):
                    w.put(x)
                sim.clk(1)
                rows.append(list(v[0]) + [o.get() for o in inst['outs']])
        tabs.append({'kind': cfg['kind'], 'c': cfg['c'], 'iw': cfg['iw'], 'ow': cfg['ow'], 'full': 0, 'rows': rows})
        metas.append(cfg)
    if tabs:
        confirmed = judge(run, tabs, metas, 'xconf_' + group)
        for k, (cfg, rec, vs) in enumerate(bad[:200]):
            if k + 1 not in confirmed:
                run.drift_note('%s: extracted netlist executed by the Kernel gives %s for inputs %s, the real simulator agrees with the reference %s'
                               % (cfg['name'], vs[0][2], vs[0][0], vs[0][1]))

# ------------------------------------------------------------------ wide widths (beyond TLC integers)
def wide_kinds():
    """the kinds LibraryWide.tla defines (read from the specification: one list, one place)"""
    import re
    from .tlc import SPEC
    text = (SPEC / 'LibraryWide.tla').read_text()
    body = re.search(r'WideKinds == \{(.*?)\}', text, re.S).group(1)
    return set(re.findall(r'"(\w+)"', body))


def _small_params(c):
    for v in c.values():
        if isinstance(v, int) and not isinstance(v, bool) and abs(v) >= (1 << 30):
            return False
        if isinstance(v, list) and any(isinstance(x, int) and abs(x) >= (1 << 30) for x in v):
            return False
    return True


def run_wide(run, group, width_sets, per_kind, nrows):
    """truth-table rows at 31..64 bit port widths, values exchanged as limb vectors and judged by Trace_CombWide"""
    from .vparse import limbs
    rng = random.Random(run.seed + 77 + hash(group) % 1000)
    kinds = wide_kinds()
    tables, metas, ints = [], [], []
    for ws in width_sets:
        cfgs = [c for c in library.catalogue(rng, widths=ws, groups=(group,)) if c['kind'] in kinds and _small_params(c['c'])
                and max(c['iw'] + c['ow']) > 30 and len(c['iw']) <= 6]
        rng.shuffle(cfgs)
        seen = {}
        for cfg in cfgs:
            if seen.get(cfg['kind'], 0) >= per_kind:
                continue
            t, why = record_table(cfg, rng, nrows)
            if t is None:
                if why.startswith('RAISED'):
                    raised(run, cfg, why)
                continue
            seen[cfg['kind']] = seen.get(cfg['kind'], 0) + 1
            ints.append(t)
            tables.append({'kind': t['kind'], 'c': t['c'], 'iw': t['iw'], 'ow': t['ow'], 'rows': [[limbs(v) for v in row] for row in t['rows']]})
            metas.append(cfg)
    if not tables:
        raise MachineryError('no wide tables recorded for ' + group)
    run.note('wide_configurations', len(tables))
    run.note('wide_kinds', sorted({m['kind'] for m in metas}))
    for c0 in range(0, len(tables), 400):
        part = tables[c0:c0 + 400]
        tf = run.scratch / ('wide_%s_%d.json' % (group, c0))
        tf.write_text(json.dumps(part))
        res = run_tlc('Trace_CombWide', 'INIT Init\nNEXT Next\n', run.scratch / ('wide_%s_%d' % (group, c0)), env={'TRACE_FILE': str(tf)}, timeout=3000)
        run.add_tlc(res)
        seen = set()
        for r in res.records:
            tid = r[1] + c0
            cfg, t = metas[tid - 1], ints[tid - 1]
            seen.add(tid)
            if r[0] == 'J':
                run.count(r[2])
                run.cov['constrained_rows'] = run.cov.get('constrained_rows', 0) + r[3]
                run.nontrivial('wide:' + cfg['name'])
            elif r[0] == 'V':
                row = t['rows'][r[2] - 1]
                ni = len(t['iw'])
                exp = [None if e == [-1] else sum(x << (15 * k) for k, x in enumerate(e)) for e in r[3]]
                wit = {'block': cfg['name'], 'kind': cfg['kind'], 'params': cfg['c'], 'iw': t['iw'], 'ow': t['ow'],
                       'inputs': [hex(v) for v in row[:ni]], 'outputs': [hex(v) for v in row[ni:]],
                       'expected': [None if e is None else hex(e) for e in exp], 'failing_rows': r[4], 'rows': len(t['rows'])}
                run.violation('%s:%s:%s' % (run.pid, cfg['kind'], param_class(cfg)), wit,
                              '%s: inputs %s give %s, reference %s (%d of %d rows differ)'
                              % (cfg['name'], wit['inputs'], wit['outputs'], wit['expected'], r[4], len(t['rows'])))
        if len(seen) != len(part):
            raise MachineryError('Trace_CombWide judged %d of %d tables' % (len(seen), len(part)))
        tf.unlink()
    run.cov['traces_validated_against_impl'] += len(tables)
    mid = len(tables) // 2
    run.sample({'block': metas[mid]['name'], 'rows(inputs+outputs, hex)': [[hex(v) for v in r_] for r_ in ints[mid]['rows'][:3]]})


def judge(run, tables, metas, tag, chunk=1500):
    nbad = set()
    for c0 in range(0, len(tables), chunk):
        part = tables[c0:c0 + chunk]
        tf = run.scratch / ('%s_%d.json' % (tag, c0))
        tf.write_text(json.dumps(part))
        res = run_tlc('Trace_Comb', 'INIT Init\nNEXT Next\n', run.scratch / ('%s_%d' % (tag, c0)), env={'TRACE_FILE': str(tf)},
                      timeout=3000)
        run.add_tlc(res)
        seen = set()
        for r in res.records:
            tid = r[1] + c0
            cfg = metas[tid - 1]
            t = tables[tid - 1]
            if r[0] == 'J':
                seen.add(tid)
                run.count(r[2])
                run.cov['constrained_rows'] = run.cov.get('constrained_rows', 0) + r[3]
                run.nontrivial(cfg['name'])
            elif r[0] == 'R':
                raise MachineryError('Library and LibraryWide disagree on %s, inputs %s' % (cfg['name'], t['rows'][r[2] - 1][:len(t['iw'])]))
            elif r[0] == 'C':
                raise MachineryError('table %s claims to be full but has %d of %d rows' % (cfg['name'], r[2], r[3]))
            elif r[0] == 'V':
                seen.add(tid)
                nbad.add(tid)
                row = t['rows'][r[2] - 1]
                ni = len(t['iw'])
                wit = {'block': cfg['name'], 'kind': cfg['kind'], 'params': cfg['c'], 'iw': t['iw'], 'ow': t['ow'],
                       'inputs': row[:ni], 'outputs': row[ni:], 'expected': r[3], 'failing_rows': r[4], 'rows': len(t['rows'])}
                run.violation('%s:%s:%s' % (run.pid, cfg['kind'], param_class(cfg)), wit,
                              '%s: inputs %s give %s, reference %s (%d of %d rows differ)'
                              % (cfg['name'], row[:ni], row[ni:], r[3], r[4], len(t['rows'])))
        if len(seen) != len(part):
            raise MachineryError('Trace_Comb judged %d of %d tables' % (len(seen), len(part)))
        tf.unlink()
    run.cov['traces_validated_against_impl'] += len(tables)
    t = tables[0]
    run.sample({'block': metas[0]['name'], 'rows(inputs+outputs)': t['rows'][:4]})
    mid = len(tables) // 2
    run.sample({'block': metas[mid]['name'], 'rows(inputs+outputs)': tables[mid]['rows'][:4]})
    return nbad


def param_class(cfg):
    c = cfg['c']
    keys = [k for k in sorted(c) if k != 'x' and not isinstance(c[k], list)]
    return ','.join('%s=%s' % (k, c[k]) for k in keys if k in ('ci', 'co', 'inv', 'arith', 'inc')) or 'any'


def replay_table(run, path):
    rec = json.loads(open(path).read())
    w = rec['witness']
    rng = random.Random(run.seed)
    for group in ('arith', 'logic', 'fxp'):
        for cfg in library.catalogue(None, widths=sorted(set(w['iw'] + w['ow'] + [1, 2, 3, 4, 5])), groups=(group,), big=True):
            if cfg['name'] == w['block']:
                t, why = record_table(cfg, rng, 1 << 14)
                if t:
                    judge(run, [t], [cfg], 'replay')
                return
    print('configuration %s not in the catalogue' % w['block'])
