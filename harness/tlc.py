"""TLC runner and output parser (standard library only)."""
import json
import os
import re
import shutil
import subprocess
import tempfile
import threading
import time
from pathlib import Path

VERIF = Path(__file__).resolve().parent.parent
SPEC = VERIF / 'spec'
JAR = '/opt/veriftools/tla/tla2tools.jar'
DEPS = '/opt/veriftools/tla/CommunityModules-deps.jar'


class TLCError(Exception):
    """Machinery failure (exit 2 material): TLC crashed, parse error, timeout."""


class TLCResult:
    def __init__(self):
        self.generated = 0       # states generated (= transitions explored + initial)
        self.distinct = 0        # distinct states
        self.depth = 0
        self.violated = None     # name of violated invariant / property, or None
        self.trace = []          # error trace: list of (action label, state text)
        self.records = []        # values printed with PrintT(ToJson(<<...>>)), parsed
        self.garbled = 0
        self.raw = ''
        self.wall = 0.0
        self.coverage = {}       # action name -> (distinct, total) when -coverage
        self.deadlock = False
        self.postcondition_failed = False

    @property
    def transitions(self):
        return max(self.generated - 0, 0)


_RE_STATS = re.compile(r'^(\d[\d,]*) states generated, (\d[\d,]*) distinct states found, (\d[\d,]*) states left')
_RE_DEPTH = re.compile(r'The depth of the complete state graph search is (\d+)')
_RE_INV = re.compile(r'Error: Invariant (\S+) is violated')
_RE_AP = re.compile(r'Error: Action property (\S+) is violated')
_RE_TP = re.compile(r'Error: Temporal properties were violated')
_RE_STATE = re.compile(r'^State (\d+): (.*)$')
_RE_COV = re.compile(r'^<(\w+) line .*>: (\d+):(\d+)')


def run_tlc(module, cfg_text, workdir, *, extra_modules=None, workers=16, env=None,
            timeout=1800, args=(), deadlock=False, jvm=(), ok_exit=(0,), heap='8g', on_record=None):
    """Run TLC on spec `module` (a module name found in SPEC or in workdir).

    cfg_text is written to <workdir>/<module>.cfg.  extra_modules maps module
    name -> text of generated modules written to workdir.  Returns TLCResult.
    Raises TLCError for machinery failures (crash, semantic error, timeout).
    """
    workdir = Path(workdir)
    workdir.mkdir(parents=True, exist_ok=True)
    for name, text in (extra_modules or {}).items():
        (workdir / (name + '.tla')).write_text(text)
    src = SPEC / (module + '.tla')
    if not (workdir / (module + '.tla')).exists():
        if not src.exists():
            raise TLCError('no such module ' + module)
        shutil.copy(src, workdir / (module + '.tla'))
    cfg = workdir / (module + '.cfg')
    cfg.write_text(cfg_text)
    meta = tempfile.mkdtemp(prefix='meta_', dir=str(workdir))
    cmd = ['java', '-XX:+UseParallelGC', '-Xss512m', '-Xmx' + heap, '-DTLA-Library=' + str(SPEC)]
    cmd += list(jvm)
    cmd += ['-cp', JAR + ':' + DEPS, 'tlc2.TLC', '-workers', str(workers), '-metadir', meta,
            '-noGenerateSpecTE', '-config', str(cfg)]
    if not deadlock:
        cmd += ['-deadlock']
    cmd += list(args)
    if os.environ.get('VERIF_COVERAGE') and '-coverage' not in args:
        cmd += ['-coverage', '1']           # audit mode: per-action counts end up in the evidence notes
    cmd += [module]
    e = dict(os.environ)
    e.update(env or {})
    t0 = time.time()
    proc = subprocess.Popen(cmd, cwd=str(workdir), env=e, stdout=subprocess.PIPE, stderr=subprocess.STDOUT,
                            text=True, errors='replace', bufsize=1 << 20)
    records = []
    garbled = 0
    other = []
    killer = threading.Timer(timeout, proc.kill)
    killer.start()
    try:
        for ln in proc.stdout:
            if ln.startswith('"['):
                try:
                    rec = json.loads(json.loads(ln))
                except ValueError:
                    garbled += 1
                    continue
                if on_record is not None:
                    on_record(rec)
                else:
                    records.append(rec)
            else:
                other.append(ln)
                if len(other) > 20000:
                    del other[2000:12000]
        proc.wait()
    finally:
        timed_out = not killer.is_alive() and proc.returncode not in (None,) and proc.returncode < 0
        killer.cancel()
        shutil.rmtree(meta, ignore_errors=True)
    if timed_out:
        raise TLCError('TLC timeout after %ss on %s' % (timeout, module))

    class _P:
        pass
    p = _P()
    p.stdout = ''.join(other)
    p.returncode = proc.returncode
    r = parse_output(p.stdout)
    r.records = records
    r.garbled = garbled
    r.module = module
    r.wall = time.time() - t0
    r.returncode = p.returncode
    fatal = None
    if r.violated is None and not r.deadlock and not r.postcondition_failed:
        if p.returncode not in ok_exit:
            fatal = 'TLC exit %d' % p.returncode
    benign = ('is violated', 'The behavior up to this point', 'Deadlock reached', 'Temporal properties were violated',
              'The following behavior constitutes', 'Stuttering')
    for ln in r.raw.splitlines():
        if ln.startswith('Error:') and not any(b in ln for b in benign):
            fatal = ln.strip()
            break
        if 'Parsing or semantic analysis failed' in ln or 'java.lang.OutOfMemoryError' in ln or 'StackOverflowError' in ln:
            fatal = ln.strip()
            break
    if fatal:
        ls = r.raw.splitlines()
        first = next((i for i, x in enumerate(ls) if 'Error:' in x or 'rror' in x), max(0, len(ls) - 30))
        tail = '\n'.join(ls[first:first + 25])
        raise TLCError('%s in %s\n%s' % (fatal, module, tail))
    return r


def parse_output(out):
    r = TLCResult()
    r.raw = out
    lines = out.splitlines()
    cur = None
    in_trace = False
    for ln in lines:
        m = _RE_STATS.match(ln)
        if m:
            r.generated = int(m.group(1).replace(',', ''))
            r.distinct = int(m.group(2).replace(',', ''))
            continue
        m = _RE_DEPTH.search(ln)
        if m:
            r.depth = int(m.group(1))
            continue
        m = _RE_INV.search(ln) or _RE_AP.search(ln)
        if m:
            r.violated = m.group(1)
            in_trace = True
            continue
        if _RE_TP.search(ln):
            r.violated = 'TEMPORAL'
            in_trace = True
            continue
        if 'Error: Deadlock reached' in ln:
            r.deadlock = True
            in_trace = True
            continue
        if 'Postcondition' in ln and 'violated' in ln or 'POSTCONDITION' in ln and 'violated' in ln:
            r.postcondition_failed = True
        m = _RE_STATE.match(ln)
        if m and in_trace:
            cur = [m.group(2), []]
            r.trace.append(cur)
            continue
        if in_trace and cur is not None:
            if ln.strip() == '' or re.match(r'^\d+ states generated', ln):
                cur = None
            else:
                cur[1].append(ln)
                continue
        m = _RE_COV.match(ln)
        if m:
            r.coverage[m.group(1)] = (int(m.group(2)), int(m.group(3)))
        if ln.startswith('"['):
            try:
                r.records.append(json.loads(json.loads(ln)))
            except ValueError:
                r.garbled += 1
    r.trace = [(a, '\n'.join(b)) for a, b in r.trace]
    return r


def tla_str(s):
    return '"' + s.replace('\\', '\\\\').replace('"', '\\"') + '"'


def to_tla(v):
    """Python value -> TLA+ expression text (ints, bools, str, list->sequence, dict->record/function, set)."""
    if isinstance(v, bool):
        return 'TRUE' if v else 'FALSE'
    if isinstance(v, int):
        return str(v) if v >= 0 else '(%d)' % v
    if isinstance(v, str):
        return tla_str(v)
    if isinstance(v, (list, tuple)):
        return '<<' + ', '.join(to_tla(x) for x in v) + '>>'
    if isinstance(v, (set, frozenset)):
        return '{' + ', '.join(to_tla(x) for x in sorted(v, key=repr)) + '}'
    if isinstance(v, dict):
        if not v:
            return '<<>>'
        if all(isinstance(k, str) and re.match(r'^[A-Za-z_][A-Za-z0-9_]*$', k) for k in v):
            return '[' + ', '.join('%s |-> %s' % (k, to_tla(x)) for k, x in v.items()) + ']'
        return '(' + ' @@ '.join('(%s :> %s)' % (to_tla(k), to_tla(x)) for k, x in v.items()) + ')'
    raise TypeError('cannot render %r' % (v,))


def run_model(module, constants, workdir, *, init='Init', next_='Next', spec=None, invariants=(), properties=(),
              view=None, constraint=None, action_constraint=None, postcondition=None, check_deadlock=False, **kw):
    """Model-check `module` with constants given as TLA+ expression text (or Python values).

    A wrapper module <module>_run is generated that EXTENDS module and defines one operator
    per constant, so that tuples, records and negative numbers (which .cfg files reject) work.
    """
    wrap = module + '_run'
    lines = ['---- MODULE %s ----' % wrap, 'EXTENDS %s' % module]
    cfg = []
    if constants:
        cfg.append('CONSTANTS')
    for name, v in constants.items():
        text = v if isinstance(v, str) else to_tla(v)
        lines.append('c_%s == %s' % (name, text))
        cfg.append(' %s <- c_%s' % (name, name))
    lines.append('====')
    if spec:
        cfg.append('SPECIFICATION %s' % spec)
    else:
        cfg.append('INIT %s' % init)
        cfg.append('NEXT %s' % next_)
    for i in invariants:
        cfg.append('INVARIANT %s' % i)
    for p in properties:
        cfg.append('PROPERTY %s' % p)
    if view:
        cfg.append('VIEW %s' % view)
    if constraint:
        cfg.append('CONSTRAINT %s' % constraint)
    if action_constraint:
        cfg.append('ACTION_CONSTRAINT %s' % action_constraint)
    if postcondition:
        cfg.append('POSTCONDITION %s' % postcondition)
    cfg.append('CHECK_DEADLOCK %s' % ('TRUE' if check_deadlock else 'FALSE'))
    workdir = Path(workdir)
    workdir.mkdir(parents=True, exist_ok=True)
    return run_tlc(wrap, '\n'.join(cfg) + '\n', workdir, extra_modules={wrap: '\n'.join(lines) + '\n'}, **kw)


class S(str):
    """marks a string as raw TLA+ text for run_model constants (plain str is raw too; use tla_str for strings)"""
