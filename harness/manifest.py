"""Regenerates /verif/MANIFEST.json from the table below:  /venv/bin/python -m harness.manifest"""
import json
from pathlib import Path

VERIF = Path(__file__).resolve().parent.parent

# id -> (category, text, note, technique, design_ref)
CHECKS = {
    'C04': ('model_checking',
            'TLC explores the Kernel model of topologicalSort/propagateAll for every netlist of up to 3-4 leaves '
            '(all wirings incl. cycles and self-loops = all instantiation orders) and checks topological order, '
            'cycle refusal, acceptance of acyclic netlists and the fixpoint; every terminal state is replayed on the real '
            'getSimulator(); larger random netlists and shuffled library composites are recorded from the real code and '
            'judged by TLC on the extracted netlist.',
            'Kernel.tla/PrimSem.tla transcribe simulation.py and the primitive leaves; netlist build/extract helpers carry no '
            'semantics; bounded to small netlists exhaustively and seeded random ones beyond.',
            'TLA+ Kernel model checked by TLC; exhaustive replay of TLC terminal states into py4hw; TLC trace validation of recorded outcomes',
            'DESIGN.md section 4, C04'),
}

PENDING = {}


def main():
    props = [json.loads(l) for l in (VERIF / 'properties.jsonl').read_text().splitlines() if l.strip()]
    checks = []
    na = []
    for p in props:
        pid = p['id']
        if pid in CHECKS:
            cat, text, note, tech, ref = CHECKS[pid]
            checks.append({
                'property_id': pid,
                'quick_cmd': './check %s --tier quick' % pid,
                'thorough_cmd': './check %s --tier thorough' % pid,
                'evidence_file': '/verif/evidence/%s.json' % pid,
                'replay_cmd_template': './check %s --replay {path}' % pid,
                'engine': 'tlc+py4hw-harness',
                'level_claimed': {'category': cat, 'text': text, 'design_ref': ref},
                'level_note': note,
                'technique': tech,
            })
        else:
            na.append({'property_id': pid, 'reason': PENDING.get(pid, 'check not built yet (construction in progress, see DESIGN.md section 8)')})
    man = {
        'version': 1,
        'setup_cmd': 'true',
        'hooks': {'guard': 'PY4HW_VERIF', 'enable': 'no source hooks are needed: all observations use public attributes '
                  '(checks import py4hw from /repo working tree)',
                  'baseline_off_cmd': 'cd /repo && /venv/bin/python -m pytest -ra -q -p no:cacheprovider --timeout=900 '
                                      '--continue-on-collection-errors',
                  'source_commits': [], 'add_only': True},
        'engines': [{'name': 'tlc+py4hw-harness', 'path': '/verif/check',
                     'serves_properties': sorted(CHECKS),
                     'kind_free_text': 'TLA+ specifications in /verif/spec checked by TLC 1.8; Python harness replays TLC '
                                       'behaviours into py4hw and records py4hw traces that TLC validates'}],
        'checks': checks,
        'not_applicable': na,
        'notes': 'fix: commits in /repo are listed in /verif/known_findings.json (status fixed).',
    }
    (VERIF / 'MANIFEST.json').write_text(json.dumps(man, indent=1) + '\n')
    print('MANIFEST.json: %d checks, %d not_applicable' % (len(checks), len(na)))


if __name__ == '__main__':
    main()
