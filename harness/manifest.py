"""Regenerates /verif/MANIFEST.json from the table below:  /venv/bin/python -m harness.manifest"""
import json
from pathlib import Path

VERIF = Path(__file__).resolve().parent.parent

# id -> (category, text, note, technique, design_ref)
CHECKS = {
    'C04': ('model_checking',
            'TLC explores the Kernel model of topologicalSort/propagateAll for every netlist of up to 3-4 leaves '
            '(all wirings incl. cycles and self-loops = all instantiation orders) and checks topological order, '
            'cycle refusal, acceptance of acyclic netlists and the fixpoint; every terminal state is replayed on the real '
            'getSimulator(); larger random netlists and shuffled library composites are recorded from the real code and '
            'judged by TLC on the extracted netlist.',
            'Kernel.tla/PrimSem.tla transcribe simulation.py and the primitive leaves; netlist build/extract helpers carry no '
            'semantics; bounded to small netlists exhaustively and seeded random ones beyond.',
            'TLA+ Kernel model checked by TLC; exhaustive replay of TLC terminal states into py4hw; TLC trace validation of recorded outcomes',
            'DESIGN.md section 4, C04'),
    'C05': ('model_checking',
            'TLC explores MC_Edge: every small netlist of registers/memory/stimulus and gates, all input histories, all clk(n) '
            'splittings and ALL visit orders of drivers and clockables, checking EdgeAtomic (post-edge state equals the order-free '
            'function of the pre-edge state), PreparedEmpty, IdleStable (n cycles = n single cycles) and the fixpoint. Settled '
            'transitions are replayed on the real simulator with the visit order imposed on clockDrivers/clockables, and the recorded '
            'runs (plus seeded random runs of library composites under random orders and splittings) are validated by TLC '
            '(Trace_Kernel) on the extracted netlist.',
            'Kernel.tla/PrimSem.tla transcribe _clk_cycle, settleAll and the leaves; orders imposed via public attributes; '
            'exhaustive for 2-3 leaf netlists at 1-2 bit, sampled replay (1/EmitMod) for the larger configurations.',
            'TLA+ Kernel model checked by TLC over all visit orders; replay of TLC schedules into py4hw; TLC trace validation of recorded runs',
            'DESIGN.md section 4, C05'),
    'C06': ('model_checking',
            'TLC enumerates every primitive leaf x port widths (mixed) x parameters (negative/oversized constants, reset and stimulus '
            'values, over-long shifts) x inputs through simulator creation and two clock cycles and checks TypeOK in every state '
            'while PrimSem computes unmasked results (negative control: removing the truncation from Put breaks it). Every case is '
            'replayed on the real primitive and every wire is range-checked after getSimulator(), after each clk(), inside a listener '
            'and inside a Waveform; composites up to 64 bit get seeded extreme stimulus; all C05/C10 traces are range-checked by TLC too.',
            'widths 1-3 (quick) / 1-4 (thorough) exhaustively; wider wires only by seeded stimulus.',
            'TLC model checking of MC_Prim (TypeOK invariant) with exhaustive replay of every TLC case on the real primitive',
            'DESIGN.md section 4, C06'),
    'C10': ('model_checking',
            'MC_Edge with a second clock domain gated by an arbitrary wire (primary input, register of either domain, gate output): '
            'TLC checks GatedHold, EnableSampledBeforeEdge and EdgeAtomic for all enable/data histories and visit orders; sampled '
            'settled transitions are replayed with the order imposed. Seeded random hierarchies (drivers on top level, containers and '
            'leaves, 1-3 gated domains, self-gating, library composites under gated containers) are recorded and validated by TLC '
            'against the order-free reference with the domain of every leaf computed by the generator, not read from py4hw.',
            'two domains in the exhaustive model; more domains/deeper hierarchies by seeded generation.',
            'TLA+ Kernel model checked by TLC (gating invariants); replay of TLC schedules; TLC trace validation of recorded hierarchical runs',
            'DESIGN.md section 4, C10'),
    'C11': ('model_checking',
            'TLC explores MC_Build (the construction API as a state machine: wires, primitive/structural children, ports, rename, '
            'reparent, reparentAndRename, checkIntegrity, each with its failing twin) for all call sequences within small bounds and '
            'checks unique names, single driver, earlier-object-survives and failure-changes-nothing-else. One call sequence per '
            'transition of the state graph is replayed through the real constructors and exception, children, wire registrations, '
            'drivers, sinks and the checkIntegrity verdict are compared with the specification state.',
            'bounds <= 4 objects, <= 3 wires, <= 3 ports, <= 8 calls; Build.tla transcribes base.py/debug.py.',
            'TLA+ Build model checked by TLC (invariants + action properties); one replayed implementation test per state-graph transition',
            'DESIGN.md section 4, C11'),
    'C07': ('model_checking',
            'Every arithmetic block of the catalogue at every combination of port widths 1-4 (mixed in/out widths, all constructor '
            'options, all constant shift/rotate amounts incl. amounts beyond the width, CLZ on both sides of powers of two, BCD) is '
            'instantiated in real py4hw; its complete truth table is measured on the real simulator and judged row by row by TLC '
            'against Library!CombRef (documented integer operation reduced modulo 2^(output width)); 8/16-bit instances on boundary '
            'and seeded random vectors; TLC also checks algebraic identities of the references (RefSanity).',
            'reference semantics in Library.tla are transcribed from the documentation; values < 2^30; zero divisors and rotation '
            'amounts above the data width are not judged.',
            'TLC evaluation of reference semantics (Library.tla) over complete truth tables recorded from the real simulator',
            'DESIGN.md section 4, C07'),
    'C08': ('model_checking',
            'Same machinery as C07 for every gate, bit-manipulation block, selector, encoder and comparator: complete truth tables at '
            'widths 1-3 and arities 1-6 (all constants for constant comparators and minterms, all 255 minterm sets of 3 inputs, both '
            'priority directions, multi-bit selects), 4/8/16-bit instances on boundary and random vectors, judged by TLC against '
            'Library!CombRef.',
            'one-hot selectors are not judged for select vectors that are not one-hot; PriorityEncoder direction follows the parameter '
            'name and the repository test (the docstring says the opposite).',
            'TLC evaluation of reference truth tables (Library.tla) over complete tables recorded from the real simulator',
            'DESIGN.md section 4, C08'),
    'C14': ('model_checking',
            'Fixed-point add/sub/mult/sign/comparator over all signed formats (1,i,f) with i in 1..3, f in 0..3 (mult: sampled format '
            'triples incl. unequal operand/result formats): all operand pairs measured on the real simulator and judged by TLC against '
            'exact scaled-integer arithmetic (Library!CombRef); the comparator only where the difference is representable.',
            'formats up to 6 bits exhaustively.',
            'TLC evaluation of exact scaled-integer references over complete operand tables recorded from the real simulator',
            'DESIGN.md section 4, C14'),
    'C09': ('model_checking',
            'For every configuration of every sequential block (register variants, toggle register, counters, delay line, pipeline '
            'stage, bidirectional shift register, stack, edge detector, clock divider, synchronous memory) TLC explores the complete '
            'reachable graph of the documented reference machine (SeqLib.tla) under all inputs at every edge and emits one input '
            'history per (state, input) transition; each is replayed on the real block from power-up with outputs observed before and '
            'after every edge and judged by TLC (Trace_Seq); seeded random histories of 200-1000 edges at 4-16 bits likewise.',
            'reference machines transcribed from the documentation; 1-bit control wires; the observation before the first edge '
            '(power-up) is not judged; stack push+pop together and pop on empty are unconstrained.',
            'TLC exploration of reference state machines with transition-covering replay into py4hw and TLC trace validation',
            'DESIGN.md section 4, C09'),
    'C15': ('model_checking',
            'TLC explores MC_Waveform (recorder + WaveDrom codec of Waveform.tla) for every watch-list shape (wire, duplicate, port '
            'alias), input history, clk(n) splitting, clear() and rendering request, checking one sample per cycle, sample = pre-edge '
            'value and Decode(Render(d)) = d with the lane spanning the recorded cycles; the run-length codec is checked for all sample '
            'sequences up to length 5-6. One call history per transition is replayed on the real Waveform; getDict()/get_wavedrom() '
            'and the pre-edge values seen by an independent listener are judged by TLC (Trace_Waveform); seeded random recordings on '
            '4-12 bit wires as well.',
            'FieldInspector/ValueFormatter entries and the GUI are outside the model.',
            'TLC model checking of the recorder/codec specification; transition-covering replay; TLC validation of real recordings and renderings',
            'DESIGN.md section 4, C15'),
    'C16': ('model_checking',
            'TLC explores the implementation-shaped registers of Axi2Reg and Reg2Axi (Axi.tla) under every schedule of '
            'start/reset/done/load pulses, peer VALID/READY and three data values (done only after a completed transfer) and checks '
            'every clause of the statement (ready iff active, holds last beat with loaded, VALID stable until accepted or reset, data is '
            'the latest load, LAST = VALID, constant KEEP, sent only after an accepted beat). One input history per transition of the '
            'reachable graphs is replayed on the real adapters at stream/register widths 8/8, 32/16, 64/64 (and 64/5); the per-cycle '
            'observations are judged by TLC clause by clause (Trace_Axi); seeded random schedules of 300-1000 cycles as well.',
            'a transfer coinciding with reset/done/restart may be kept or cleared (consistently); a load coinciding with an accepted '
            'beat is unconstrained; three symbolic data values.',
            'TLC model checking of two register-level FSMs under all schedules; transition-covering replay; TLC trace validation at the property layer',
            'DESIGN.md section 4, C16'),
    'C20': ('model_checking',
            'TLC runs the implementation-shaped CMDRequest/CMDResponse FSMs (HilCmd.tla) on a set of command streams under every '
            'producer pacing (idle gaps anywhere, VALID held until taken) and on a set of (value, size) pairs under every consumer '
            'pacing and checks NoSpuriousAction, AllActionsOnce (observed pulses = Parse(stream), each once, with the transmitted '
            'numbers) and ResponsePrefix/ResponseComplete. Every complete schedule is replayed cycle by cycle on the real blocks and '
            'judged by TLC at the property layer (characters reconstructed from the handshakes); seeded random streams with 1-7 digit '
            'numbers and random pacing as well.',
            'values below 2^28; size >= 1; well-formed streams; up to 3-5 idle cycles per behaviour in the exhaustive part.',
            'TLC model checking of the codec FSMs under all pacing schedules; replay of every schedule; TLC trace validation against the command semantics',
            'DESIGN.md section 4, C20'),
    'C17': ('model_checking',
            'The real UART assembly (serializer, line, clock generation and recovery with its dividers/edge detectors/sync FSM, '
            'deserializer) is built for divider N, its leaf netlist is extracted and executed cycle by cycle by the Kernel (behavioural '
            'leaves transcribed in PrimSem) for every pair of bytes of an alphabet, every inter-byte gap 0..4N+2 and several receiver '
            'patterns (incl. one ready cycle in nine); TLC checks DeliveredIsPrefixOfAccepted, LineIs8N1 (independent software receiver: '
            'falling edge, mid-bit sampling every 2N cycles, start 0, 8 data bits LSB first, stop 1) and the bounded-liveness '
            'AllDelivered. Every behaviour is replayed on the real assembly, validated wire by wire against the Kernel (drift) and '
            'judged at the property layer (Trace_Uart); seeded random streams of up to 24 bytes at N in {2,3,4,8,13} as well.',
            'receiver completes the two-phase hand-off before the next frame ends (a UART has no flow control); exhaustive part N=2,3 '
            '(quick) / 2..5 (thorough), byte pairs from a small alphabet.',
            'TLC model checking of the extracted netlist under Kernel semantics against the link specification; replay; TLC trace validation',
            'DESIGN.md section 4, C17'),
    'C03': ('model_checking',
            'Every design (each library block of the catalogue inside a structural top at several widths/parameters; seeded '
            'compositions with fan-out, feedback through registers, mixed-width and repeated kinds with different optional ports; the '
            'same with hostile wire/port/instance names: reserved words, clk, names colliding after the w_/i_ prefixes; repeated and '
            'sub-block requests on the same generator) is generated, parsed by a syntax-only front end, and the AST plus the interface '
            'table of the live objects is judged by TLC against the static semantics VerilogWF.tla (declared once, no reserved word, '
            'every use declared, modules defined once with the ports/widths/directions the instances connect, one driver of the right '
            'kind per net, objects sharing a module name interchangeable). Text no Verilog-2001 production admits is a violation.',
            'front end covers the subset the emitters may produce (other legal constructs are counted as unsupported, not judged); an '
            'inlinable primitive used as generation root (emitted with an explicit out-of-scope warning) is not a design.',
            'TLC evaluation of a static-semantics specification over parsed emitted files',
            'DESIGN.md section 4, C03'),
    'C01': ('translation_validation',
            'For every design (each catalogued library block inside a structural top at several widths/parameters, covering inlined '
            'assigns, BodyReg, shared named modules and per-instance modules; seeded compositions with hierarchy, fan-out, feedback '
            'through registers, repeated kinds, optionally two ports of one instance on one wire) the emitted text is parsed (syntax '
            'only) and EXECUTED by TLC under VerilogSem.tla: IEEE 1364 expression sizing/signedness on limb vectors, continuous-'
            'assignment fixpoint, non-blocking register update, initial values, hierarchy flattened inside the specification with '
            'definitions looked up by name. The real simulator runs the same design from power-up (all input vectors for small '
            'combinational designs, seeded random sequences otherwise); every top-level output is compared at power-up and after '
            'every edge. Division/modulo by zero is not compared.',
            'VerilogSem is a transcription of IEEE 1364-2005 for the emitted subset (two-state); no third-party Verilog simulator '
            'exists in the sandbox to cross-check it; its limb arithmetic is self-checked by TLC against integer arithmetic.',
            'per-design translation validation: TLC executes the emitted Verilog (VerilogSem.tla) against recorded simulator runs',
            'DESIGN.md section 4, C01'),
    'C19': ('model_checking',
            'TLC explores every call history (new generator for a circuit or one of its sub-blocks, whole-hierarchy request, '
            'single-module request from the block own generator or an ancestor generator, simulation step) over two circuits sharing '
            'block kinds and wire names, with the cache discipline of rtl_generation modelled (GenHistory.tla, invariant RequestIsPure). '
            'Histories are replayed on real generators and circuits; each answer is normalised by the syntax front end and must equal the '
            'answer to the same request on a freshly built, never simulated identical circuit with a fresh generator; outputs after every '
            'simulation step must equal those of an identical circuit never asked for Verilog (judged by TLC, Trace_Gen); the second '
            'answer of a generator is also executed against the simulator (Trace_Verilog).',
            'two circuits; histories up to 5-6 calls; normalisation = declaration order and instance-unique hexadecimal suffixes.',
            'TLC model checking of generator call histories; replay of histories; TLC validation of recorded answers',
            'DESIGN.md section 4, C19'),
    'C02': ('translation_validation',
            'ProgSpace.tla defines the supported method-body grammar (if/elif/else nests, match/case, ternaries, and/or/not, '
            'comparisons, + - * // % & | ^ ~ << >>, a local, an integer state attribute, a constructor argument, put/prepare/get); TLC '
            'generates all one-statement programs over depth-1 expressions, all operator-pair nesting shapes (precedence / '
            'associativity) and a seeded random sample of larger bodies. Each is rendered with minimal parentheses to a py4hw.Logic '
            'subclass (one class per program, instantiated at several widths and constructor arguments), transpiled (an exception = '
            'refusal), simulated by the real Simulator on in-domain input sequences, and the emitted module is executed by TLC '
            '(VerilogSem) and must give the same outputs and state-variable trajectory. Text that is not Verilog is a violation. The '
            'repository behavioural blocks (UART serializer/deserializer, ClockSyncFSM, CMDRequest/Response, AutoReset) are fixed programs.',
            'domain membership (intermediates in 0..2^32-1, shifts < 32, non-zero divisors) is decided by a reference interpreter of '
            'the generated program that is never used for verdicts; VerilogSem is two-state.',
            'per-program translation validation: programs generated by TLC from a grammar specification, emitted Verilog executed by TLC against the real Python execution',
            'DESIGN.md section 4, C02'),
    'C12': ('exploration',
            'FloatFmt.tla specifies IEEE-754 binary formats parametrically over exact dyadic rationals on limb vectors and is '
            'self-checked by TLC (Encode/Decode round trip, monotonicity, exact add/mul identities on formats (3,2),(4,3); platform '
            'struct encoding on every pattern used). The helpers (FPNum from bits/float, components, to_float, convert, sp/dp '
            'to/from IEEE-754 incl. parts, add/sub/mul/compare incl. values that went through precision reduction, two-complement '
            'round trip, signExtend, FixedPoint raw add/sub/mult) are called on every 5th (quick) / all 2^16 (thorough) half '
            'patterns, a structured single/double table (exponent fields x boundary mantissas x signs, zeros, subnormal boundaries, '
            'infinities), seeded operand pairs with exponent gaps 0..60, all values at widths 1..8 and all operand pairs of six '
            'fixed-point formats; every result is recomputed by TLC (Trace_Float).',
            'encode/decode fidelity of pure functions: an oracle evaluated on a structured finite table, exhaustive only for half '
            'precision, two-complement widths <= 8-10 and small fixed-point formats.',
            'TLC evaluation of an exact-rational format specification over logged helper calls',
            'DESIGN.md section 4, C12'),
    'C13': ('model_checking',
            'Design level: the adder algorithm as py4hw builds it (absolute-compare swap, exponent difference, alignment, add/subtract, '
            'leading-zero normalisation, exponent adjust) is run by TLC over ALL pairs of normal operands of a scaled format (3,2) / '
            '(4,3) and judged by the statement predicates (sign of the exact sum, error < 2 ulp of the larger operand, '
            'commutativity); a too narrow exponent-difference wire is the model negative control. Code level: the real 32-bit '
            'FPComparator_SP (plain/absolute), FPMult_SP, FPAdder_SP, FPtoInt_SP, InttoFP_SP are simulated on a structured operand '
            'table (exponent gaps 0..80, boundary mantissas, sign combinations, close magnitudes of opposite sign, significand '
            'products/sums at rounding and carry boundaries, powers of two +-1, the 2^31 neighbourhood, seeded random integers) and '
            'judged by TLC with the same predicates over exact dyadic rationals (FPBlocks.tla, Trace_FP).',
            'exhaustive only for the scaled adder model; the 32-bit blocks are judged on a finite structured table, not on all 2^64 '
            'operand pairs; finite normal operands and normal exact results only.',
            'TLC model checking of a scaled algorithm model plus TLC evaluation of exact-rational error-bound predicates on recorded block outputs',
            'DESIGN.md section 4, C13'),
    'C18': ('exploration',
            'Layout.tla states what a correct RESULT of placing and routing a structural block is: one symbol per child and per port, '
            'no two overlapping or sharing a grid cell; for every used wire the nets drawn for it with their pass-through / feedback '
            'markers form one connected figure that touches the real driver pin and every real reader pin and no pin of another wire '
            '(topologically, and geometrically: no routed polyline passes through a foreign pin position). Netlists: every netlist of '
            'the TLC-enumerated MC_Edge family wrapped in a block with ports, the structural library blocks, seeded compositions, '
            'layered netlists with long forward edges, accumulator-beside-bypass families. Schematic(obj, placeAndRoute=True) runs '
            'under a 60 s watchdog; objs/nets/symbol_matrix/pin positions are projected to JSON and judged by TLC (Trace_Layout).',
            'the 2400-line heuristic placer is not modelled (no TLA+ model of the algorithm): only recorded results are judged; '
            'termination is a watchdog observation.',
            'TLC evaluation of a layout result relation over recorded schematics of TLC-generated and library netlists',
            'DESIGN.md section 4, C18'),
}

PENDING = {}


# later growth, appended to the level text of the property (see DESIGN.md section 0)
EXTRA = {
    'C01': ' Port widths beyond 32 bits (33/64, values as limb vectors) and tops holding two configurations of one class are included; '
           'a text that is not closed is reported as such by Trace_Verilog instead of being executed.',
    'C03': ' Pairs of configurations of the same class in one top (both orders) and designs with two clock domains are part of the families.',
    'C04': ' Part D builds netlists in two phases (cells added at the top level or deep inside an existing block after the first '
           'getSimulator()) and judges the second getSimulator() + clk(1) like a one-shot build.',
    'C05': ' Every recorded clk(n) call also carries what a simulator listener saw (one notification per cycle, the values after each cycle), '
           'checked against Kernel!CyclesSeen.',
    'C06': ' WireAPI.tla models Wire.put/prepare/settle under script-driven behavioural drivers (several prepare() calls per clock call with '
           'arbitrary integers); one history per transition is replayed on real Wires.',
    'C07': ' MC_NetComb executes the extracted leaf netlist of every block for all inputs (binding X, confirmed on the real block); '
           'LibraryWide.tla gives limb-vector references for 31..64 bit ports (tied to Library.tla on all small tables).',
    'C08': ' MC_NetComb executes the extracted leaf netlist of every block for all inputs (binding X, confirmed on the real block); '
           'LibraryWide.tla gives limb-vector references for 31..64 bit ports (tied to Library.tla on all small tables).',
    'C14': ' Formats of 7..64 bit total width are included (integer references up to 30 bit, LibraryWide limb references beyond), with '
           'operand pairs that differ by exactly one power of two; MC_NetComb executes the extracted netlists for all inputs.',
    'C09': ' MC_NetSeq runs the extracted leaf netlist of each block in product with its reference machine over all reachable product '
           'states (inputs nondeterministic at every edge); disagreeing histories are replayed on the real block.',
    'C10': ' Distinct clock drivers that share a name are part of the generated designs.',
    'C15': ' Registers or the recorder may sit on a second, ungated clock driver.',
    'C16': ' Every step also records the observation with the inputs applied before the edge (READY follows active combinationally, '
           'registers and stream outputs hold until the edge).',
    'C18': ' The result relation includes the geometric connectivity of the drawn figure (net segments plus the line a pass-through draws) '
           'and that every pin lies on it; witness netlists of repaired defects are always included.',
    'C19': ' The circuits contain a transpiled behavioural block with constructor-initialised state and (circuit 2) a second clock domain.',
    'C20': ' The encoder inputs are disturbed after the start pulse; the run loop is bounded by what a correct decoder needs.',
}


def main():
    props = [json.loads(l) for l in (VERIF / 'properties.jsonl').read_text().splitlines() if l.strip()]
    checks = []
    na = []
    for p in props:
        pid = p['id']
        if pid in CHECKS:
            cat, text, note, tech, ref = CHECKS[pid]
            text = text + EXTRA.get(pid, '')
            checks.append({
                'property_id': pid,
                'quick_cmd': './check %s --tier quick' % pid,
                'thorough_cmd': './check %s --tier thorough' % pid,
                'evidence_file': '/verif/evidence/%s.json' % pid,
                'replay_cmd_template': './check %s --replay {path}' % pid,
                'engine': 'tlc+py4hw-harness',
                'level_claimed': {'category': cat, 'text': text, 'design_ref': ref},
                'level_note': note,
                'technique': tech,
            })
        else:
            na.append({'property_id': pid, 'reason': PENDING.get(pid, 'check not built yet (construction in progress, see DESIGN.md section 8)')})
    man = {
        'version': 1,
        'setup_cmd': 'true',
        'hooks': {'guard': 'PY4HW_VERIF', 'enable': 'no source hooks are needed: all observations use public attributes '
                  '(checks import py4hw from /repo working tree)',
                  'baseline_off_cmd': 'cd /repo && /venv/bin/python -m pytest -ra -q -p no:cacheprovider --timeout=900 '
                                      '--continue-on-collection-errors',
                  'source_commits': [], 'add_only': True},
        'engines': [{'name': 'tlc+py4hw-harness', 'path': '/verif/check',
                     'serves_properties': sorted(CHECKS),
                     'kind_free_text': 'TLA+ specifications in /verif/spec checked by TLC 1.8; Python harness replays TLC '
                                       'behaviours into py4hw and records py4hw traces that TLC validates'}],
        'checks': checks,
        'not_applicable': na,
        'notes': 'fix: commits in /repo are listed in /verif/known_findings.json (status fixed).',
    }
    (VERIF / 'MANIFEST.json').write_text(json.dumps(man, indent=1) + '\n')
    print('MANIFEST.json: %d checks, %d not_applicable' % (len(checks), len(na)))


if __name__ == '__main__':
    main()
