"""Catalogue of combinational library blocks: (kind, parameters, widths) -> constructor call.

Mirrors the port conventions of spec/Library.tla (order of inputs and outputs).  No semantics here.
A configuration is a dict:
  kind  : block kind (CombRef case)
  name  : unique readable id
  c     : parameters passed to CombRef (JSON object, never empty)
  iw/ow : input / output widths
  mk    : function(hw, ins, outs) that instantiates the block
  group : 'arith' (C07) | 'logic' (C08) | 'fxp' (C14)
"""
import itertools


class Skip(Exception):
    pass


def _cfg(group, kind, iw, ow, mk, c=None, tag=''):
    c = dict(c or {})
    if not c:
        c = {'x': 0}
    name = '%s[%s->%s]%s' % (kind, ','.join(map(str, iw)), ','.join(map(str, ow)), tag)
    return {'group': group, 'kind': kind, 'name': name, 'c': c, 'iw': list(iw), 'ow': list(ow), 'mk': mk}


def catalogue(rng=None, widths=(1, 2, 3), groups=('arith', 'logic', 'fxp'), big=False):
    """yield configurations. `widths` = data widths enumerated exhaustively (mixed combinations included)."""
    import py4hw
    P = py4hw
    out = []
    W = list(widths)

    def add(*a, **k):
        out.append(_cfg(*a, **k))

    if 'arith' in groups:
        for wa in W:
            for wb in W:
                for wr in sorted(set(W + [max(wa, wb) + 1])):
                    for ci in (0, 1):
                        for co in (0, 1):
                            if wr < wa:
                                continue    # AddCarryIn asserts r >= a
                            add('arith', 'Add', [wa, wb] + ([1] if ci else []), [wr] + ([1] if co else []),
                                lambda hw, i, o, ci=ci, co=co: P.Add(hw, 'dut', i[0], i[1], o[0], ci=i[2] if ci else None,
                                                                     co=o[1] if co else None),
                                {'ci': ci, 'co': co}, ' ci=%d co=%d' % (ci, co))
                    if wr >= wa:
                        add('arith', 'AddCarryIn', [wa, wb, 1], [wr], lambda hw, i, o: P.AddCarryIn(hw, 'dut', i[0], i[1], o[0], i[2]))
                    add('arith', 'Sub', [wa, wb], [wr], lambda hw, i, o: P.Sub(hw, 'dut', i[0], i[1], o[0]))
                    if wa == wb:
                        add('arith', 'Add', [wa], [wr], lambda hw, i, o: P.Add(hw, 'dut', i[0], i[0], o[0]), {'ci': 0, 'co': 0, 'alias': [1, 1]},
                            ' alias a+a')
                        add('arith', 'Sub', [wa], [wr], lambda hw, i, o: P.Sub(hw, 'dut', i[0], i[0], o[0]), {'alias': [1, 1]}, ' alias a-a')
                        add('arith', 'Mul', [wa], [wr], lambda hw, i, o: P.Mul(hw, 'dut', i[0], i[0], o[0]), {'alias': [1, 1]}, ' alias a*a')
                    if wr >= wa:
                        add('arith', 'SubBorrowIn', [wa, wb, 1], [wr], lambda hw, i, o: P.SubBorrowIn(hw, 'dut', i[0], i[1], o[0], i[2]))
                    add('arith', 'Mul', [wa, wb], [wr], lambda hw, i, o: P.Mul(hw, 'dut', i[0], i[1], o[0]))
                    add('arith', 'SignedMul', [wa, wb], [wr], lambda hw, i, o: P.SignedMul(hw, 'dut', i[0], i[1], o[0]))
                    add('arith', 'Div', [wa, wb], [wr], lambda hw, i, o: P.Div(hw, 'dut', i[0], i[1], o[0]))
                    add('arith', 'Mod', [wa, wb], [wr], lambda hw, i, o: P.Mod(hw, 'dut', i[0], i[1], o[0]))
                    add('arith', 'SignedDiv', [wa, wb], [wr], lambda hw, i, o: P.SignedDiv(hw, 'dut', i[0], i[1], o[0]))
                    if wr >= wa and wr >= wb:
                        for ci in (0, 1):
                            for co in (0, 1):
                                add('arith', 'SignedAdd', [wa, wb] + ([1] if ci else []), [wr] + ([1] if co else []),
                                    lambda hw, i, o, ci=ci, co=co: P.SignedAdd(hw, 'dut', i[0], i[1], o[0], ci=i[2] if ci else None,
                                                                               co=o[1] if co else None, width_check=False),
                                    {'ci': ci, 'co': co}, ' ci=%d co=%d' % (ci, co))
                        add('arith', 'SignedSub', [wa, wb], [wr], lambda hw, i, o: P.SignedSub(hw, 'dut', i[0], i[1], o[0]))
        for wa in W:
            for wr in sorted(set(W + [wa + 2])):
                add('arith', 'Neg', [wa], [wr], lambda hw, i, o: P.Neg(hw, 'dut', i[0], o[0]))
                for inv in (0, 1):
                    add('arith', 'Abs', [wa], [wr] + ([1] if inv else []),
                        lambda hw, i, o, inv=inv: P.Abs(hw, 'dut', i[0], o[0], o[1] if inv else None), {'inv': inv}, ' inv=%d' % inv)
                add('arith', 'SignExtend', [wa], [wr], lambda hw, i, o: P.SignExtend(hw, 'dut', i[0], o[0]))
                add('arith', 'ZeroExtend', [wa], [wr], lambda hw, i, o: P.ZeroExtend(hw, 'dut', i[0], o[0]))
                for n in range(0, wa + 3):
                    add('arith', 'ShiftLeftConstant', [wa], [wr], lambda hw, i, o, n=n: P.ShiftLeftConstant(hw, 'dut', i[0], n, o[0]),
                        {'n': n}, ' n=%d' % n)
                    add('arith', 'ShiftRightConstant', [wa], [wr], lambda hw, i, o, n=n: P.ShiftRightConstant(hw, 'dut', i[0], n, o[0]),
                        {'n': n}, ' n=%d' % n)
            add('arith', 'Sign', [wa], [1], lambda hw, i, o: P.Sign(hw, 'dut', i[0], o[0]))
            for n in range(0, wa + 1):
                add('arith', 'RotateLeftConstant', [wa], [wa], lambda hw, i, o, n=n: P.RotateLeftConstant(hw, 'dut', i[0], n, o[0]),
                    {'n': n}, ' n=%d' % n)
                add('arith', 'RotateRightConstant', [wa], [wa], lambda hw, i, o, n=n: P.RotateRightConstant(hw, 'dut', i[0], n, o[0]),
                    {'n': n}, ' n=%d' % n)
            for wb in (1, 2, 3):
                for wr in sorted(set(W + [wa + 2])):
                    add('arith', 'ShiftLeft', [wa, wb], [wr], lambda hw, i, o: P.ShiftLeft(hw, 'dut', i[0], i[1], o[0]))
                for wr in [x for x in W if x <= wa]:
                    add('arith', 'ShiftRight', [wa, wb], [wr], lambda hw, i, o: P.ShiftRight(hw, 'dut', i[0], i[1], o[0]),
                        {'arith': 0}, ' logical')
                    add('arith', 'ShiftRight', [wa, wb], [wr], lambda hw, i, o: P.ShiftRight(hw, 'dut', i[0], i[1], o[0], arithmetic=True),
                        {'arith': 1}, ' arithmetic')
                    add('arith', 'ShiftRight', [wa, wb, 1], [wr],
                        lambda hw, i, o: P.ShiftRight(hw, 'dut', i[0], i[1], o[0], arithmetic=i[2]), {'arith': 2}, ' arith-wire')
                if (1 << (wb - 1)) <= wa:
                    add('arith', 'RotateLeft', [wa, wb], [wa], lambda hw, i, o: P.RotateLeft(hw, 'dut', i[0], i[1], o[0]))
                    add('arith', 'RotateRight', [wa, wb], [wa], lambda hw, i, o: P.RotateRight(hw, 'dut', i[0], i[1], o[0]))
        for wa in range(2, 10 if big else 7):
            import math
            need = int(math.ceil(math.log2(wa)))
            for wr in sorted({need, need + 1, need + 2}):
                if wr >= 1:
                    add('arith', 'CountLeadingZeros', [wa], [wr, 1], lambda hw, i, o: P.CountLeadingZeros(hw, 'dut', i[0], o[0], o[1]))
        for wa, digits in ((3, 1), (4, 2), (5, 2), (7, 3), (8, 3)):
            add('arith', 'BinaryToBCD', [wa], [4 * digits], lambda hw, i, o: P.BinaryToBCD(hw, 'dut', i[0], o[0]))

    if 'logic' in groups:
        for w in W:
            for k in ('And2', 'Or2', 'Xor2', 'Nand2', 'Nor2'):
                add('logic', k, [w, w], [w], lambda hw, i, o, k=k: getattr(P, k)(hw, 'dut', i[0], i[1], o[0]))
            for w2 in W:
                add('logic', 'Not', [w], [w2], lambda hw, i, o: P.Not(hw, 'dut', i[0], o[0]))
                add('logic', 'Buf', [w], [w2], lambda hw, i, o: P.Buf(hw, 'dut', i[0], o[0]))
                if w2 != w:
                    add('logic', 'And2', [w, w2], [max(w, w2)], lambda hw, i, o: P.And2(hw, 'dut', i[0], i[1], o[0]))
                    add('logic', 'Or2', [w, w2], [min(w, w2)], lambda hw, i, o: P.Or2(hw, 'dut', i[0], i[1], o[0]))
            for n in range(1, 7):
                if w * n > 12:
                    continue
                for k in ('And', 'Or', 'Nor') + (('Xor',) if n >= 2 else ()):
                    add('logic', k, [w] * n, [w], lambda hw, i, o, k=k: getattr(P, k)(hw, 'dut', list(i), o[0]), tag=' n=%d' % n)
            if w == 1:
                # many-input gates (reduction trees / ladders of any shape): rows are sampled, with every one-hot and one-cold vector
                for n in (7, 9, 10, 12, 16, 17, 24):
                    for k in ('And', 'Or', 'Nor', 'Xor'):
                        add('logic', k, [1] * n, [1], lambda hw, i, o, k=k: getattr(P, k)(hw, 'dut', list(i), o[0]), tag=' n=%d' % n)
            if w >= 1:
                add('logic', 'AndBits', [w], [1], lambda hw, i, o: P.AndBits(hw, 'dut', i[0], o[0]))
                add('logic', 'OrBits', [w], [1], lambda hw, i, o: P.OrBits(hw, 'dut', i[0], o[0]))
            for k in range(0, w + 1):
                add('logic', 'Bit', [w], [1], lambda hw, i, o, k=k: P.Bit(hw, 'dut', i[0], k, o[0]), {'k': k}, ' k=%d' % k)
            for h in (range(0, w) if w <= 4 else (0, w // 2, w - 2, w - 1)):
                for l in (range(0, h + 1) if w <= 4 else sorted({0, h // 2, h})):
                    for wr in sorted({h - l + 1, w}):
                        add('logic', 'Range', [w], [wr], lambda hw, i, o, h=h, l=l: P.Range(hw, 'dut', i[0], h, l, o[0]),
                            {'h': h, 'l': l}, ' %d:%d' % (h, l))
            for w2 in W:
                add('logic', 'ConcatenateMSBF', [w, w2], [w + w2], lambda hw, i, o: P.ConcatenateMSBF(hw, 'dut', list(i), o[0]))
                add('logic', 'ConcatenateLSBF', [w, w2], [w + w2], lambda hw, i, o: P.ConcatenateLSBF(hw, 'dut', list(i), o[0]))
                if w + w2 + 1 <= 30:
                    add('logic', 'ConcatenateMSBF', [w, 1, w2], [w + w2 + 1], lambda hw, i, o: P.ConcatenateMSBF(hw, 'dut', list(i), o[0]))
                    add('logic', 'ConcatenateLSBF', [w2, w, 1], [w + w2 + 1], lambda hw, i, o: P.ConcatenateLSBF(hw, 'dut', list(i), o[0]))
            # the same wire on several operands of one instance (c.alias = wire index per operand)
            for w2 in W:
                add('logic', 'ConcatenateLSBF', [w, w2], [2 * w + w2], lambda hw, i, o: P.ConcatenateLSBF(hw, 'dut', [i[0], i[1], i[0]], o[0]),
                    {'alias': [1, 2, 1]}, ' alias 1,2,1')
                add('logic', 'ConcatenateMSBF', [w, w2], [2 * w + w2], lambda hw, i, o: P.ConcatenateMSBF(hw, 'dut', [i[0], i[1], i[0]], o[0]),
                    {'alias': [1, 2, 1]}, ' alias 1,2,1')
            add('logic', 'ConcatenateLSBF', [w], [3 * w], lambda hw, i, o: P.ConcatenateLSBF(hw, 'dut', [i[0], i[0], i[0]], o[0]),
                {'alias': [1, 1, 1]}, ' alias 1,1,1')
            for k in ('And', 'Or', 'Xor'):
                add('logic', k, [w, w], [w], lambda hw, i, o, k=k: getattr(P, k)(hw, 'dut', [i[0], i[1], i[0]], o[0]), {'alias': [1, 2, 1]},
                    ' n=3 alias 1,2,1')
            add('logic', 'Mux', [1, w, w], [w], lambda hw, i, o: P.Mux(hw, 'dut', i[0], [i[1], i[2]], o[0]), tag=' 2-way')
            add('logic', 'Equal', [w], [1], lambda hw, i, o: P.Equal(hw, 'dut', i[0], i[0], o[0]), {'alias': [1, 1]}, ' alias')
            add('logic', 'Comparator', [w], [1, 1, 1], lambda hw, i, o: P.Comparator(hw, 'dut', i[0], i[0], o[0], o[1], o[2]),
                {'alias': [1, 1]}, ' alias')
            add('logic', 'BitsLSBF', [w], [1] * w, lambda hw, i, o: P.BitsLSBF(hw, 'dut', i[0], list(o)))
            add('logic', 'BitsMSBF', [w], [1] * w, lambda hw, i, o: P.BitsMSBF(hw, 'dut', i[0], list(o)))
            add('logic', 'Repeat', [1], [w], lambda hw, i, o: P.Repeat(hw, 'dut', i[0], o[0]))
            add('logic', 'BufEnable', [w, 1], [w], lambda hw, i, o: P.BufEnable(hw, 'dut', i[0], i[1], o[0]))
            # configurations the constructors are expected to refuse (output wider than the data): judged like any other
            # if a constructor accepts them
            add('logic', 'BufEnable', [w, 1], [w + 2], lambda hw, i, o: P.BufEnable(hw, 'dut', i[0], i[1], o[0]), tag=' wide-out')
            add('logic', 'Demux', [w, 1], [w, w + 3], lambda hw, i, o: P.Demux(hw, 'dut', i[0], i[1], list(o)), tag=' mixed-outs')
            for ws in (1, 2):
                add('logic', 'Mux2', [ws, w, w], [w], lambda hw, i, o: P.Mux2(hw, 'dut', i[0], i[1], i[2], o[0]), tag=' selw=%d' % ws)
            for sb in (1, 2, 3):
                n = 1 << sb
                if w * n <= 12:
                    add('logic', 'Mux', [sb] + [w] * n, [w], lambda hw, i, o: P.Mux(hw, 'dut', i[0], list(i[1:]), o[0]), tag=' n=%d' % n)
                if w <= 2:
                    add('logic', 'Demux', [w, sb], [w] * n, lambda hw, i, o: P.Demux(hw, 'dut', i[0], i[1], list(o)), tag=' n=%d' % n)
            for n in (1, 2, 3):
                if (w + 1) * n <= 12:
                    add('logic', 'Select', [1, w] * n, [w],
                        lambda hw, i, o: P.Select(hw, 'dut', list(i[0::2]), list(i[1::2]), o[0]), tag=' n=%d' % n)
                    add('logic', 'OneHotMux', [1, w] * n, [w],
                        lambda hw, i, o: P.OneHotMux(hw, 'dut', list(i[0::2]), list(i[1::2]), o[0]), tag=' n=%d' % n)
                add('logic', 'OneHotDemux', [w] + [1] * n, [w] * n,
                    lambda hw, i, o: P.OneHotDemux(hw, 'dut', list(i[1:]), i[0], list(o)), tag=' n=%d' % n)
            for n in (1, 2, 3, 4):
                if w + (w + 1) * n <= 13:
                    add('logic', 'SelectDefault', [w] + [1, w] * n, [w],
                        lambda hw, i, o: P.SelectDefault(hw, 'dut', list(i[1::2]), list(i[2::2]), i[0], o[0]), tag=' n=%d' % n)
            add('logic', 'Swap', [w, w, 1], [w, w], lambda hw, i, o: P.Swap(hw, 'dut', i[0], i[1], i[2], o[0], o[1]))
            add('logic', 'Equal', [w, w], [1], lambda hw, i, o: P.Equal(hw, 'dut', i[0], i[1], o[0]))
            for v in (range(0, 1 << w) if w <= 4 else sorted({0, 1, (1 << w) - 1, 1 << (w - 1), (1 << (w - 1)) - 1, 0x55 & ((1 << w) - 1)})):
                add('logic', 'EqualConstant', [w], [1], lambda hw, i, o, v=v: P.EqualConstant(hw, 'dut', i[0], v, o[0]), {'v': v}, ' v=%d' % v)
                add('logic', 'NotEqualConstant', [w], [1], lambda hw, i, o, v=v: P.NotEqualConstant(hw, 'dut', i[0], v, o[0]),
                    {'v': v}, ' v=%d' % v)
            for n in (2, 3, 4):
                if w * n <= 12:
                    add('logic', 'AnyEqual', [w] * n, [1], lambda hw, i, o: P.AnyEqual(hw, 'dut', list(i), o[0]), tag=' n=%d' % n)
            add('logic', 'Comparator', [w, w], [1, 1, 1], lambda hw, i, o: P.Comparator(hw, 'dut', i[0], i[1], o[0], o[1], o[2]))
            add('logic', 'ComparatorSignedUnsigned', [w, w], [1, 1, 1, 1, 1],
                lambda hw, i, o: P.ComparatorSignedUnsigned(hw, 'dut', i[0], i[1], o[0], o[1], o[2], o[3], o[4]))
            for k in ('Max2', 'Min2', 'SignedMax2', 'SignedMin2'):
                add('logic', k, [w, w], [w], lambda hw, i, o, k=k: getattr(P, k)(hw, 'dut', i[0], i[1], o[0]))
        for n in range(1, 5):
            add('logic', 'Decoder', [n if n < 4 else 2], [1] * (1 << min(n, 3)) if n < 4 else [1] * 3,
                lambda hw, i, o: P.Decoder(hw, 'dut', i[0], list(o)), tag=' outs')
            for inc in (0, 1):
                add('logic', 'PriorityEncoder', [1] * n, [1] * n,
                    lambda hw, i, o, inc=inc: P.PriorityEncoder(hw, 'dut', list(i), list(o), inc_priority=bool(inc)), {'inc': inc},
                    ' n=%d inc=%d' % (n, inc))
        for n in (1, 2, 3, 4):
            for v in range(0, 1 << n):
                add('logic', 'Minterm', [1] * n, [1], lambda hw, i, o, v=v: P.Minterm(hw, 'dut', list(i), v, o[0]), {'v': v}, ' v=%d' % v)
        for sub in range(1, 256):
            mins = [k for k in range(8) if (sub >> k) & 1]
            add('logic', 'SumOfMinterms', [3], [1], lambda hw, i, o, mins=mins: P.SumOfMinterms(hw, 'dut', i[0], mins, o[0]),
                {'mins': mins}, ' %s' % mins)
        add('logic', 'Digit7Segment', [4], [7], lambda hw, i, o: P.Digit7Segment(hw, 'dut', i[0], o[0]))

    if 'fxp' in groups:
        fmts = [(1, i, f) for i in (1, 2, 3) for f in (0, 1, 2, 3) if 1 + i + f <= 6]
        widefmts = []
        for w in W:
            if w >= 7:
                # formats of total width w: all-integer, one fraction bit, balanced, almost all fraction
                widefmts += sorted({(1, w - 1 - f, f) for f in (0, 1, w // 2, w - 2) if w - 1 - f >= 1})
        if widefmts:
            fmts = widefmts
        for f in fmts:
            w = sum(f)
            add('fxp', 'FixedPointAdd', [w, w], [w], lambda hw, i, o, f=f: P.FixedPointAdd(hw, 'dut', i[0], f, i[1], f, o[0], f),
                {'af': list(f)}, ' %s' % (f,))
            add('fxp', 'FixedPointSub', [w, w], [w], lambda hw, i, o, f=f: P.FixedPointSub(hw, 'dut', i[0], f, i[1], f, o[0], f),
                {'af': list(f)}, ' %s' % (f,))
            add('fxp', 'FixedPointSign', [w], [1], lambda hw, i, o, f=f: P.FixedPointSign(hw, 'dut', i[0], f, o[0]), {'af': list(f)}, ' %s' % (f,))
            add('fxp', 'FixedPointComparator', [w, w], [1, 1, 1],
                lambda hw, i, o, f=f: P.FixedPointComparator(hw, 'dut', i[0], f, i[1], f, o[0], o[1], o[2]), {'af': list(f)}, ' %s' % (f,))
        small = [f for f in fmts if sum(f) <= 4] if not widefmts else fmts
        for af in small:
            for bf in small:
                for rf in (fmts + [(1, 5, 0), (1, 6, 1)] if not widefmts else fmts):     # incl. results with more integer bits than the product
                    if af[2] + bf[2] - rf[2] < 0:
                        continue
                    if rng is not None and not (af == bf == rf) and rng.random() > (0.5 if big else (0.3 if widefmts else 0.12)):
                        continue
                    add('fxp', 'FixedPointMult', [sum(af), sum(bf)], [sum(rf)],
                        lambda hw, i, o, af=af, bf=bf, rf=rf: P.FixedPointMult(hw, 'dut', i[0], af, i[1], bf, o[0], rf),
                        {'af': list(af), 'bf': list(bf), 'rf': list(rf)}, ' %s*%s->%s' % (af, bf, rf))
    return out


def instantiate(cfg):
    """build the block under a fresh HWSystem with undriven input wires; returns dict(hw, ins, outs)"""
    import py4hw
    hw = py4hw.HWSystem()
    ins = [hw.wire('i%d' % k, w) for k, w in enumerate(cfg['iw'])]
    outs = [hw.wire('o%d' % k, w) for k, w in enumerate(cfg['ow'])]
    try:
        cfg['mk'](hw, ins, outs)
    except AssertionError as e:
        raise Skip('constructor assertion: %s' % e)
    except Exception as e:
        raise Skip('constructor refused: %s' % e)
    return {'hw': hw, 'ins': ins, 'outs': outs}


def vectors(iw, rng, limit):
    """all input vectors when there are at most `limit`, otherwise boundary vectors plus seeded random ones"""
    total = 1
    for w in iw:
        total *= (1 << w)
    if total <= limit:
        return [list(v) for v in itertools.product(*[range(1 << w) for w in iw])], True
    edge = []
    for w in iw:
        m = (1 << w) - 1
        edge.append(sorted({0, 1, m, m - 1 if m > 1 else 0, 1 << (w - 1), (1 << (w - 1)) - 1 if w > 1 else 0, min(m, w), min(m, w - 1),
                            min(m, w + 1)}))
    vecs = set()
    prod = 1
    for e in edge:
        prod *= len(e)
    if prod <= limit // 2:
        for v in itertools.product(*edge):
            vecs.add(tuple(v))
    # many inputs: exactly one input active / exactly one inactive (a reduction that drops an operand is only visible there)
    if len(iw) >= 5:
        for k in range(len(iw)):
            vecs.add(tuple(((1 << w) - 1 if j == k else 0) for j, w in enumerate(iw)))
            vecs.add(tuple((0 if j == k else (1 << w) - 1) for j, w in enumerate(iw)))
        vecs.add(tuple(0 for _ in iw))
        vecs.add(tuple((1 << w) - 1 for w in iw))
    # operand pairs that differ in exactly one bit position / by exactly one power of two (carry chains, borrow chains,
    # equality reductions over many bits: every bit position must matter), within a third of the budget
    if len(iw) >= 2 and iw[0] > 1 and iw[1] > 1:
        m0, m1 = (1 << iw[0]) - 1, (1 << iw[1]) - 1
        rest = [rng.choice(e) for e in edge[2:]]
        ks = list(range(min(iw[0], iw[1])))
        rng.shuffle(ks)
        for k in ks:
            if len(vecs) >= limit // 3 + prod * (prod <= limit // 2):
                break
            x = rng.randrange(1 << iw[0])
            for a_, b_ in ((x, (x + (1 << k))), (x, x ^ (1 << k)), ((x + (1 << k)), x), (1 << k, 0), (0, 1 << k)):
                vecs.add(tuple([a_ & m0, b_ & m1] + rest))
    while len(vecs) < limit:
        vecs.add(tuple(rng.choice(e) if rng.random() < 0.4 else rng.randrange(1 << w) for e, w in zip(edge, iw)))
    return [list(v) for v in sorted(vecs)], False
