"""Parser for TLA+ values as printed by TLC (states, PrintT, dumps)."""
import re

_TOK = re.compile(r'''\s*(?:(<<|>>|\|->|:>|@@|\[|\]|\(|\)|\{|\}|,)|(-?\d+)|"((?:[^"\\]|\\.)*)"|([A-Za-z_][A-Za-z0-9_]*))''')


def tokenize(s):
    pos = 0
    out = []
    n = len(s)
    while pos < n:
        m = _TOK.match(s, pos)
        if not m:
            if s[pos:].strip() == '':
                break
            raise ValueError('bad TLA value at %r' % s[pos:pos + 30])
        pos = m.end()
        if m.group(1):
            out.append(('p', m.group(1)))
        elif m.group(2) is not None:
            out.append(('n', int(m.group(2))))
        elif m.group(3) is not None:
            out.append(('s', m.group(3).replace('\\"', '"').replace('\\\\', '\\')))
        else:
            out.append(('i', m.group(4)))
    return out


class _P:
    def __init__(self, toks):
        self.t = toks
        self.i = 0

    def peek(self):
        return self.t[self.i] if self.i < len(self.t) else (None, None)

    def eat(self, v=None):
        k = self.t[self.i]
        if v is not None and k[1] != v:
            raise ValueError('expected %r got %r' % (v, k))
        self.i += 1
        return k

    def value(self):
        v = self.atom()
        # function merges  a :> b @@ c :> d
        if self.peek() == ('p', ':>'):
            d = {}
            key = v
            while True:
                self.eat(':>')
                val = self.atom()
                d[_key(key)] = val
                if self.peek() == ('p', '@@'):
                    self.eat('@@')
                    key = self.atom()
                else:
                    break
            return d
        return v

    def atom(self):
        k, v = self.peek()
        if k == 'n' or k == 's':
            self.eat()
            return v
        if k == 'i':
            self.eat()
            if v == 'TRUE':
                return True
            if v == 'FALSE':
                return False
            return v
        if v == '<<':
            self.eat()
            out = []
            while self.peek() != ('p', '>>'):
                out.append(self.value())
                if self.peek() == ('p', ','):
                    self.eat()
            self.eat('>>')
            return out
        if v == '{':
            self.eat()
            out = []
            while self.peek() != ('p', '}'):
                out.append(self.value())
                if self.peek() == ('p', ','):
                    self.eat()
            self.eat('}')
            return out
        if v == '(':
            self.eat()
            x = self.value()
            self.eat(')')
            return x
        if v == '[':
            self.eat()
            d = {}
            while self.peek() != ('p', ']'):
                name = self.eat()[1]
                self.eat('|->')
                d[name] = self.value()
                if self.peek() == ('p', ','):
                    self.eat()
            self.eat(']')
            return d
        raise ValueError('unexpected token %r' % (self.peek(),))


def _key(k):
    if isinstance(k, list):
        return tuple(_key(x) for x in k)
    return k


def parse(s):
    p = _P(tokenize(s))
    v = p.value()
    return v


def parse_state(text):
    """Parse a TLC state '/\\ a = 1\\n/\\ b = <<..>>' into a dict."""
    out = {}
    # split on leading '/\ name = '
    parts = re.split(r'(?:^|\n)\s*/\\ ', '\n' + text)
    for part in parts:
        part = part.strip()
        if not part:
            continue
        m = re.match(r'^([A-Za-z_][A-Za-z0-9_]*) = (.*)$', part, re.S)
        if not m:
            # single-variable state without /\
            continue
        out[m.group(1)] = parse(m.group(2))
    if not out:
        m = re.match(r'^\s*([A-Za-z_][A-Za-z0-9_]*) = (.*)$', text, re.S)
        if m:
            out[m.group(1)] = parse(m.group(2))
    return out
