"""Drive the real py4hw simulator along a schedule and record a Trace_Kernel trace."""
import json

from . import netlist
from .common import quiet, MachineryError
from .tlc import run_tlc

MISSING = object()


class _Listener:
    """simulator listener: what a user sees between the cycles of a multi-cycle clk() call"""

    def __init__(self, wires):
        self.wires = wires
        self.seen = []

    def simulatorUpdated(self):
        self.seen.append([w.get() for w in self.wires])


def leaf_state(lf):
    k = type(lf).__name__
    if k == 'Reg':
        return getattr(lf, 'value', 0)
    if k == 'SynchronousMemory':
        return list(getattr(lf, 'data', []))
    if k == 'Sequence':
        return getattr(lf, 'i', 0)
    if k == 'UARTSerializer':
        return [getattr(lf, 'state', -1), getattr(lf, 'count', -1), getattr(lf, 'txv', -1)]
    if k == 'UARTDeserializer':
        return [getattr(lf, 'state', -1), getattr(lf, 'count', -1), getattr(lf, 'state_v', -1), getattr(lf, 'temp', -1)]
    if k == 'ClockSyncFSM':
        return getattr(lf, 'state', -1)
    return 0


def impose_order(sim, leaves, dom_of, dorder, lorder):
    """permute Simulator.clockDrivers (dict order) and each driver's clockables.

    leaves: list of leaf objects (index+1 = model id); dom_of: model dom id per leaf id;
    dorder: list of model dom ids; lorder: list of leaf ids (order of ClockLeaf picks)."""
    drv_of_dom = {}
    for b, lf in enumerate(leaves):
        d = dom_of[b]
        if d and lf.isClockable():
            from py4hw.base import getObjectClockDriver
            drv_of_dom.setdefault(d, getObjectClockDriver(lf))
    cd = sim.clockDrivers
    new = {}
    for d in dorder:
        drv = drv_of_dom.get(d)
        if drv is not None and drv in cd and drv not in new:
            new[drv] = cd[drv]
    for drv in cd:
        if drv not in new:
            new[drv] = cd[drv]
    sim.clockDrivers = new
    rank = {b: k for k, b in enumerate(lorder)}
    for drv, cds in new.items():
        idx = {id(o): k for k, o in enumerate(leaves)}
        cds.clockables.sort(key=lambda o: rank.get(idx.get(id(o), -1) + 1, 10 ** 6))


def record(hw, wires, leaves, schedule, net, v0=None, probe=None):
    """schedule: list of ('poke', wire_index0, value) | ('clk', n, dorder, lorder) ; returns trace dict.
    The first step is always the construction of the simulator."""
    from py4hw.base import Wire
    steps = []
    dom_of = [l.get('dom', 0) for l in net['leaves']]
    with quiet():
        if v0:
            for k, v in enumerate(v0):
                if v:
                    wires[k].put(v)
        try:
            sim = hw.getSimulator()
        except Exception:
            return {'net': strip(net), 'v0': v0 or [0] * len(wires),
                    'steps': [{'act': 'sim', 'status': 'raised', 'vals': []}]}
        steps.append({'act': 'sim', 'status': 'idle', 'vals': [w.get() for w in wires]})
        lis = _Listener(wires)
        sim.addListener(lis)
        for s in schedule:
            if s[0] == 'poke':
                wires[s[1]].put(s[2])
                steps.append({'act': 'poke', 'w': s[1] + 1, 'v': s[2]})
            else:
                _, n, dorder, lorder = s
                if dorder is not None:
                    impose_order(sim, leaves, dom_of, dorder, lorder)
                lis.seen = []
                sim.clk(n)
                steps.append({'act': 'clk', 'n': n, 'vals': [w.get() for w in wires],
                              'st': [leaf_state(l) for l in leaves], 'total': sim.total_clks,
                              'prepared': len(Wire.prepared), 'notified': len(lis.seen)})
                if n <= 3 and len(lis.seen) == n:
                    steps[-1]['seen'] = lis.seen
                if probe:
                    probe(sim, steps[-1])
    return {'net': strip(net), 'v0': v0 or [0] * len(wires), 'steps': steps}


def strip(net):
    return {'width': net['width'],
            'leaves': [{'kind': l['kind'], 'ins': l['ins'], 'outs': l['outs'], 'p': l.get('p', []), 'dom': l.get('dom', 0)}
                       for l in net['leaves']],
            'doms': [{'en': d['en']} for d in net['doms']]}


def validate(run, traces, name='trk', chunk=20000):
    """validate traces with Trace_Kernel; returns list of (kind, tid, line, clause, detail)"""
    out = []
    for c0 in range(0, len(traces), chunk):
        part = traces[c0:c0 + chunk]
        tf = run.scratch / ('%s_%d.json' % (name, c0))
        tf.write_text(json.dumps(part))
        res = run_tlc('Trace_Kernel', 'CONSTANTS\n MaxPasses = 1000\nINIT Init\nNEXT Next\n',
                      run.scratch / ('%s_%d' % (name, c0)), env={'TRACE_FILE': str(tf)}, timeout=3000)
        run.add_tlc(res)
        fin = set()
        for r in res.records:
            if r[0] == 'J':
                fin.add(r[1])
            else:
                out.append((r[0], r[1] + c0, r[2], r[3], r[4]))
        badt = {r[1] for r in res.records if r[0] == 'V'}
        ended = {i + 1 for i, t in enumerate(part) if t['steps'][0].get('status') == 'raised'}
        missing = set(range(1, len(part) + 1)) - fin - badt - ended
        if missing:
            raise MachineryError('Trace_Kernel did not finish traces %s' % sorted(missing)[:5])
        tf.unlink()
    run.cov['traces_validated_against_impl'] += len(traces)
    return out
