"""Verilog-2001 front end for the subset py4hw emits: text -> JSON AST (syntax only, no semantics).

parse(text) -> {'modules': [...]}; raises VSyntaxError(kind, msg, line) where kind is
  'illegal'      the text cannot be Verilog-2001 at that point (statement keyword inside an expression,
                 illegal identifier, unbalanced begin/end, ...)
  'unsupported'  a legal construct this front end does not implement (generate, function, task, ...)
Numbers carry their value as little-endian base-2^15 limbs ('vl') because TLC integers are 32 bit.
"""
import re

LIMB = 15

KEYWORDS = {'module', 'endmodule', 'input', 'output', 'inout', 'wire', 'reg', 'integer', 'assign', 'always', 'initial', 'begin',
            'end', 'if', 'else', 'case', 'endcase', 'default', 'posedge', 'negedge', 'parameter', 'localparam', 'signed', 'or'}
UNSUPPORTED = {'generate', 'endgenerate', 'function', 'endfunction', 'task', 'endtask', 'for', 'while', 'repeat', 'forever',
               'genvar', 'casex', 'casez', 'defparam', 'specify', 'primitive', 'fork', 'join', 'wait', 'disable', 'real', 'time',
               'always_ff', 'always_comb', 'logic', 'typedef', 'struct', 'interface', 'package'}
STATEMENT_WORDS = {'if', 'else', 'begin', 'end', 'case', 'endcase', 'always', 'assign', 'module', 'endmodule', 'initial'}


class VSyntaxError(Exception):
    def __init__(self, kind, msg, line):
        super().__init__('%s at line %d: %s' % (kind, line, msg))
        self.kind = kind
        self.msg = msg
        self.line = line


TOKEN = re.compile(r'''
   (?P<ws>\s+|//[^\n]*|/\*.*?\*/)
 | (?P<attr>\(\*(?!\s*\)).*?\*\))       # attribute instance; '(*)' of an event control '@(*)' is not one
 | (?P<num>(?:\d+)?'[sS]?[bBdDhHoO][0-9a-fA-F_xXzZ?]+|\d[\d_]*)
 | (?P<id>[A-Za-z_$][A-Za-z0-9_$]*)
 | (?P<esc>\\[^\s]+)
 | (?P<op><<<|>>>|===|!==|==|!=|<=|>=|&&|\|\||<<|>>|\*\*|~\^|\^~|~&|~\||[-+*/%&|^~!<>=?:;,.()\[\]{}#@])
''', re.X | re.S)


def limbs(v):
    out = []
    while True:
        out.append(v & ((1 << LIMB) - 1))
        v >>= LIMB
        if v == 0:
            return out


def tokenize(text):
    toks = []
    pos = 0
    line = 1
    while pos < len(text):
        m = TOKEN.match(text, pos)
        if not m:
            raise VSyntaxError('illegal', 'unexpected character %r' % text[pos], line)
        kind = m.lastgroup
        s = m.group(0)
        if kind not in ('ws', 'attr'):
            toks.append((kind, s, line))
        line += s.count('\n')
        pos = m.end()
    toks.append(('eof', '', line))
    return toks


class Parser:
    def __init__(self, text):
        self.t = tokenize(text)
        self.i = 0

    # -- token helpers
    def peek(self, k=0):
        return self.t[min(self.i + k, len(self.t) - 1)]

    def at(self, s):
        return self.peek()[1] == s and self.peek()[0] in ('op', 'id')

    def eat(self, s=None):
        tok = self.t[self.i]
        if s is not None and tok[1] != s:
            self.fail('expected %r, found %r' % (s, tok[1]), tok)
        self.i += 1
        return tok

    def fail(self, msg, tok=None):
        tok = tok or self.peek()
        kind = 'unsupported' if tok[1] in UNSUPPORTED else 'illegal'
        raise VSyntaxError(kind, msg, tok[2])

    def ident(self):
        tok = self.peek()
        if tok[0] == 'esc':
            self.i += 1
            return tok[1][1:]
        if tok[0] != 'id':
            self.fail('identifier expected, found %r' % tok[1], tok)
        if tok[1] in KEYWORDS or tok[1] in UNSUPPORTED:
            self.fail('keyword %r used where an identifier is expected' % tok[1], tok)
        self.i += 1
        return tok[1]

    # -- top level
    def parse(self):
        mods = []
        while self.peek()[0] != 'eof':
            if self.at('module'):
                mods.append(self.module())
            else:
                self.fail('module expected, found %r' % self.peek()[1])
        return {'modules': mods}

    def const_int(self):
        """small constant expressions in ranges: integer literals with + - only"""
        e = self.expr()
        v = const_eval(e)
        if v is None:
            raise VSyntaxError('unsupported', 'non-literal constant expression in a range', self.peek()[2])
        return v

    def range_(self):
        self.eat('[')
        h = self.const_int()
        self.eat(':')
        l = self.const_int()
        self.eat(']')
        return h, l

    def module(self):
        line = self.eat('module')[2]
        m = {'name': self.ident(), 'line': line, 'params': [], 'ports': [], 'decls': [], 'assigns': [], 'always': [], 'initials': [],
             'insts': []}
        if self.at('#'):
            self.eat('#')
            self.eat('(')
            while not self.at(')'):
                if self.at('parameter'):
                    self.eat()
                p = {'n': self.ident(), 'd': []}
                if self.at('='):
                    self.eat()
                    p['d'] = [self.expr()]
                m['params'].append(p)
                if self.at(','):
                    self.eat()
            self.eat(')')
        if self.at('('):
            self.eat('(')
            last = None
            while not self.at(')'):
                if self.peek()[1] in ('input', 'output', 'inout'):
                    d = self.eat()[1]
                    isreg = False
                    signed = False
                    h = l = 0
                    if self.at('wire'):
                        self.eat()
                    if self.at('reg'):
                        self.eat()
                        isreg = True
                    if self.at('signed'):
                        self.eat()
                        signed = True
                    if self.at('['):
                        h, l = self.range_()
                    last = (d, isreg, signed, h, l)
                elif last is None:
                    self.fail('port direction expected')
                d, isreg, signed, h, l = last
                m['ports'].append({'n': self.ident(), 'dir': d, 'reg': 1 if isreg else 0, 'signed': 1 if signed else 0, 'h': h, 'l': l,
                                   'line': self.peek()[2]})
                if self.at(','):
                    self.eat()
                elif not self.at(')'):
                    self.fail('"," or ")" expected in port list, found %r' % self.peek()[1])
            self.eat(')')
        self.eat(';')
        while not self.at('endmodule'):
            if self.peek()[0] == 'eof':
                self.fail('endmodule missing')
            self.item(m)
        self.eat('endmodule')
        return m

    def item(self, m):
        tok = self.peek()
        w = tok[1]
        if w in ('wire', 'reg', 'integer'):
            self.eat()
            signed = False
            h = l = 0
            if w == 'integer':
                h, l, signed = 31, 0, True
            if self.at('signed'):
                self.eat()
                signed = True
            if self.at('['):
                h, l = self.range_()
            while True:
                d = {'n': self.ident(), 'kind': w, 'h': h, 'l': l, 'signed': 1 if signed else 0, 'arr': [], 'init': [], 'line': tok[2]}
                if self.at('['):
                    a, b = self.range_()
                    d['arr'] = [min(a, b), max(a, b)]
                if self.at('='):
                    self.eat()
                    d['init'] = [self.expr()]
                m['decls'].append(d)
                if self.at(','):
                    self.eat()
                    continue
                break
            self.eat(';')
        elif w in ('parameter', 'localparam'):
            self.eat()
            if self.at('['):
                self.range_()
            p = {'n': self.ident(), 'd': []}
            self.eat('=')
            p['d'] = [self.expr()]
            m['params'].append(p)
            self.eat(';')
        elif w == 'assign':
            self.eat()
            l = self.lvalue()
            self.eat('=')
            r = self.expr()
            self.eat(';')
            m['assigns'].append({'l': l, 'r': r, 'line': tok[2]})
        elif w == 'always':
            self.eat()
            self.eat('@')
            edge, clk = 'star', ''
            if self.at('*'):
                self.eat()
            else:
                self.eat('(')
                if self.at('*'):
                    self.eat()
                elif self.peek()[1] in ('posedge', 'negedge'):
                    edge = self.eat()[1]
                    clk = self.ident()
                    if self.at('or') or self.at(','):
                        raise VSyntaxError('unsupported', 'multiple events in a sensitivity list', tok[2])
                else:
                    # explicit level-sensitive list: treated as @(*)
                    self.ident()
                    while self.at('or') or self.at(','):
                        self.eat()
                        self.ident()
                self.eat(')')
            m['always'].append({'edge': edge, 'clk': clk, 'body': self.stmt(), 'line': tok[2]})
        elif w == 'initial':
            self.eat()
            m['initials'].append(self.stmt())
        elif w in UNSUPPORTED:
            raise VSyntaxError('unsupported', 'construct %r' % w, tok[2])
        elif tok[0] in ('id', 'esc') and w not in KEYWORDS:
            self.instance(m)
        else:
            self.fail('module item expected, found %r' % w)

    def instance(self, m):
        line = self.peek()[2]
        mod = self.ident()
        params = []
        if self.at('#'):
            self.eat()
            self.eat('(')
            while not self.at(')'):
                self.eat('.')
                n = self.ident()
                self.eat('(')
                params.append({'n': n, 'v': self.expr()})
                self.eat(')')
                if self.at(','):
                    self.eat()
            self.eat(')')
        name = self.ident()
        self.eat('(')
        conns = []
        while not self.at(')'):
            if not self.at('.'):
                raise VSyntaxError('unsupported', 'positional port connection', line)
            self.eat('.')
            p = self.ident()
            self.eat('(')
            e = [] if self.at(')') else [self.expr()]
            self.eat(')')
            conns.append({'p': p, 'e': e})
            if self.at(','):
                self.eat()
            elif not self.at(')'):
                self.fail('"," or ")" expected in a port connection list')
        self.eat(')')
        self.eat(';')
        m['insts'].append({'mod': mod, 'name': name, 'params': params, 'conns': conns, 'line': line})

    # -- statements
    def stmt(self):
        tok = self.peek()
        w = tok[1]
        if w == 'begin':
            self.eat()
            if self.at(':'):
                self.eat()
                self.ident()
            xs = []
            while not self.at('end'):
                if self.peek()[0] == 'eof' or self.at('endmodule'):
                    self.fail('"end" missing for "begin" at line %d' % tok[2])
                xs.append(self.stmt())
            self.eat('end')
            return {'k': 'block', 'xs': xs}
        if w == 'if':
            self.eat()
            self.eat('(')
            c = self.expr()
            self.eat(')')
            t = self.stmt()
            e = []
            if self.at('else'):
                self.eat()
                e = [self.stmt()]
            return {'k': 'if', 'c': c, 't': t, 'e': e}
        if w == 'case':
            self.eat()
            self.eat('(')
            x = self.expr()
            self.eat(')')
            items = []
            d = []
            while not self.at('endcase'):
                if self.peek()[0] == 'eof':
                    self.fail('endcase missing')
                if self.at('default'):
                    self.eat()
                    if self.at(':'):
                        self.eat()
                    d = [self.stmt()]
                else:
                    ms = [self.expr()]
                    while self.at(','):
                        self.eat()
                        ms.append(self.expr())
                    self.eat(':')
                    items.append({'m': ms, 's': self.stmt()})
            self.eat('endcase')
            return {'k': 'case', 'x': x, 'items': items, 'd': d}
        if w == ';':
            self.eat()
            return {'k': 'null'}
        if w in UNSUPPORTED:
            raise VSyntaxError('unsupported', 'statement %r' % w, tok[2])
        if w in ('else', 'end', 'endcase', 'endmodule'):
            self.fail('statement expected, found %r' % w)
        l = self.lvalue()
        if self.at('='):
            self.eat()
            k = 'ba'
        elif self.at('<='):
            self.eat()
            k = 'nba'
        else:
            self.fail('"=" or "<=" expected after %s, found %r' % (l.get('n', 'lvalue'), self.peek()[1]))
        r = self.expr()
        self.eat(';')
        return {'k': k, 'l': l, 'r': r, 'line': tok[2]}

    def lvalue(self):
        if self.at('{'):
            self.eat()
            xs = [self.lvalue()]
            while self.at(','):
                self.eat()
                xs.append(self.lvalue())
            self.eat('}')
            return {'k': 'cat', 'xs': xs}
        n = self.ident()
        return self.selects({'k': 'id', 'n': n})

    def selects(self, node):
        while self.at('['):
            self.eat()
            a = self.expr()
            if self.at(':'):
                self.eat()
                b = self.expr()
                self.eat(']')
                node = {'k': 'part', 'n': node['n'], 'h': a, 'l': b} if node['k'] == 'id' else self._bad_sel()
            else:
                self.eat(']')
                if node['k'] == 'id':
                    node = {'k': 'bit', 'n': node['n'], 'i': a}
                elif node['k'] == 'bit':
                    node = {'k': 'bit2', 'n': node['n'], 'i': node['i'], 'j': a}      # memory word then bit
                else:
                    self._bad_sel()
        return node

    def _bad_sel(self):
        raise VSyntaxError('unsupported', 'nested select', self.peek()[2])

    # -- expressions (IEEE 1364-2005 table 5-4 precedence)
    BIN = [('||',), ('&&',), ('|',), ('^', '~^', '^~'), ('&',), ('==', '!=', '===', '!=='), ('<', '<=', '>', '>='),
           ('<<', '>>', '<<<', '>>>'), ('+', '-'), ('*', '/', '%'), ('**',)]

    def expr(self):
        c = self.binary(0)
        if self.at('?'):
            self.eat()
            a = self.expr()
            self.eat(':')
            b = self.expr()
            return {'k': 'tern', 'c': c, 'a': a, 'b': b}
        return c

    def binary(self, lvl):
        if lvl == len(self.BIN):
            return self.unary()
        a = self.binary(lvl + 1)
        while self.peek()[0] == 'op' and self.peek()[1] in self.BIN[lvl]:
            op = self.eat()[1]
            b = self.binary(lvl + 1)
            a = {'k': 'bin', 'op': op, 'a': a, 'b': b}
        return a

    def unary(self):
        tok = self.peek()
        if tok[0] == 'op' and tok[1] in ('+', '-', '!', '~', '&', '|', '^', '~&', '~|', '~^', '^~'):
            self.eat()
            return {'k': 'un', 'op': tok[1], 'a': self.unary()}
        return self.primary()

    def primary(self):
        tok = self.peek()
        if tok[0] == 'num':
            self.eat()
            return number(tok[1], tok[2])
        if tok[1] == '(' and tok[0] == 'op':
            self.eat()
            e = self.expr()
            self.eat(')')
            return e
        if tok[1] == '{' and tok[0] == 'op':
            self.eat()
            first = self.expr()
            if self.at('{'):
                self.eat()
                xs = [self.expr()]
                while self.at(','):
                    self.eat()
                    xs.append(self.expr())
                self.eat('}')
                self.eat('}')
                return {'k': 'rep', 'n': first, 'x': {'k': 'cat', 'xs': xs} if len(xs) > 1 else xs[0]}
            xs = [first]
            while self.at(','):
                self.eat()
                xs.append(self.expr())
            self.eat('}')
            return {'k': 'cat', 'xs': xs}
        if tok[0] == 'id' and tok[1].startswith('$'):
            self.eat()
            if tok[1] not in ('$signed', '$unsigned'):
                raise VSyntaxError('unsupported', 'system function ' + tok[1], tok[2])
            self.eat('(')
            a = self.expr()
            self.eat(')')
            return {'k': 'call', 'f': tok[1], 'a': a}
        if tok[0] in ('id', 'esc'):
            if tok[1] in STATEMENT_WORDS:
                raise VSyntaxError('illegal', 'statement keyword %r inside an expression' % tok[1], tok[2])
            n = self.ident()
            return self.selects({'k': 'id', 'n': n})
        self.fail('expression expected, found %r' % tok[1], tok)


def number(s, line):
    s = s.replace('_', '')
    if "'" not in s:
        v = int(s)
        return {'k': 'num', 'w': 0, 's': 1, 'vl': limbs(v), 'z': 0}
    size, rest = s.split("'")
    signed = rest[0] in 'sS'
    if signed:
        rest = rest[1:]
    base = rest[0].lower()
    digits = rest[1:].lower()
    w = int(size) if size else 0
    if set(digits) & set('xz?'):
        return {'k': 'num', 'w': w, 's': 1 if signed else 0, 'vl': [0], 'z': 1}
    v = int(digits, {'b': 2, 'd': 10, 'h': 16, 'o': 8}[base])
    if w:
        v &= (1 << w) - 1
    return {'k': 'num', 'w': w, 's': 1 if signed else 0, 'vl': limbs(v), 'z': 0}


def const_eval(e):
    if e['k'] == 'num':
        v = 0
        for k, l in enumerate(e['vl']):
            v |= l << (LIMB * k)
        return v
    if e['k'] == 'bin' and e['op'] in '+-*':
        a, b = const_eval(e['a']), const_eval(e['b'])
        if a is None or b is None:
            return None
        return a + b if e['op'] == '+' else a - b if e['op'] == '-' else a * b
    if e['k'] == 'un' and e['op'] == '-':
        a = const_eval(e['a'])
        return None if a is None else -a
    return None


def add_sym(ast):
    """per-module declaration table (pure syntax): name -> width, signedness, kind, array bounds, initialiser"""
    for m in ast['modules']:
        sym = {}
        for p in m['ports']:
            kind = 'outreg' if (p['dir'] == 'output' and p['reg']) else p['dir']
            sym[p['n']] = {'w': abs(p['h'] - p['l']) + 1, 's': p['signed'], 'kind': kind, 'lo': 0, 'len': 0, 'l': min(p['h'], p['l']), 'init': []}
        for d in m['decls']:
            prev = sym.get(d['n'])
            ent = {'w': abs(d['h'] - d['l']) + 1, 's': d['signed'], 'kind': d['kind'], 'lo': d['arr'][0] if d['arr'] else 0,
                   'len': (d['arr'][1] - d['arr'][0] + 1) if d['arr'] else 0, 'l': min(d['h'], d['l']), 'init': d['init']}
            if prev is not None and prev['kind'] in ('output', 'outreg') and d['kind'] == 'reg':
                ent['kind'] = 'outreg'
            sym[d['n']] = ent
        m['sym'] = sym
    return ast


def parse(text):
    return add_sym(Parser(text).parse())
