"""./check <id> [--tier quick|thorough] [--replay path] [--selftest] [--repo path]"""
import argparse
import importlib
import os
import sys
import traceback

from . import common
from .tlc import TLCError


def main(argv=None):
    ap = argparse.ArgumentParser()
    ap.add_argument('pid')
    ap.add_argument('--tier', default=os.environ.get('VERIF_TIER', 'quick'), choices=['quick', 'thorough'])
    ap.add_argument('--replay', default=None)
    ap.add_argument('--selftest', action='store_true')
    ap.add_argument('--repo', default=None)
    ap.add_argument('--seed', type=int, default=None)
    a = ap.parse_args(argv)
    seed = a.seed if a.seed is not None else int(os.environ.get('VERIF_SEED', '20260923') or 0)
    common.setup_repo_path(a.repo)
    pid = a.pid.upper()
    try:
        mod = importlib.import_module('harness.drivers.' + pid.lower())
    except ImportError:
        traceback.print_exc()
        print('no driver for', pid)
        return 2
    run = common.Run(pid, a.tier, seed, mod.LEVEL)
    try:
        if a.selftest:
            ok = mod.selftest(run)
            os.chdir(run._cwd)
            print('SELFTEST %s %s' % (pid, 'ok' if ok else 'FAILED'))
            return 0 if ok else 2
        if a.replay:
            mod.replay(run, a.replay)
        else:
            mod.check(run)
        return run.finish(rule=getattr(mod, 'RULE', None))
    except (TLCError, common.MachineryError) as e:
        os.chdir(run._cwd)
        print('MACHINERY-FAILURE property=%s: %s' % (pid, e))
        return 2
    except Exception:
        os.chdir(run._cwd)
        traceback.print_exc()
        print('MACHINERY-FAILURE property=%s (uncaught exception)' % pid)
        return 2


if __name__ == '__main__':
    sys.exit(main())
