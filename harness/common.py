"""Shared run context: scratch, seed/tier, verdicts, known findings, evidence."""
import atexit
import contextlib
import io
import json
import os
import random
import shutil
import sys
import tempfile
import time
from pathlib import Path

VERIF = Path(__file__).resolve().parent.parent
OUT = VERIF / 'out'
EVIDENCE = VERIF / 'evidence'
FINDINGS = VERIF / 'known_findings.json'

REPO = os.environ.get('VERIF_REPO', '/repo')


def setup_repo_path(repo=None):
    """Make `import py4hw` resolve to <repo> (default /repo)."""
    global REPO
    if repo:
        REPO = repo
    if REPO not in sys.path:
        sys.path.insert(0, REPO)
    os.environ.setdefault('MPLBACKEND', 'Agg')
    sys.dont_write_bytecode = True


@contextlib.contextmanager
def quiet():
    """Silence py4hw's chatter on stdout."""
    old = sys.stdout
    sys.stdout = io.StringIO()
    try:
        yield
    finally:
        sys.stdout = old


class MachineryError(Exception):
    pass


class Run:
    def __init__(self, pid, tier, seed, level):
        self.pid = pid
        self.tier = tier
        self.seed = seed
        self.level = level
        self.t0 = time.time()
        self.rng = random.Random(seed)
        self.scratch = Path(tempfile.mkdtemp(prefix='verif_%s_' % pid))
        atexit.register(shutil.rmtree, str(self.scratch), True)
        self.violations = []        # unlisted violations
        self.known_hits = {}        # signature -> witness text
        self.drift = []
        self.cov = {'states': 0, 'transitions': 0, 'traces_validated_against_impl': 0,
                    'evaluations': 0, 'samples': []}
        self.distinct = set()
        self.assumptions = []
        self.notes = {}
        self.findings = load_findings()
        self._cwd = os.getcwd()
        os.chdir(self.scratch)      # nothing is ever written under /repo

    # -- bookkeeping ------------------------------------------------------
    def add_tlc(self, res):
        self.cov['states'] += res.distinct
        self.cov['transitions'] += res.generated
        if getattr(res, 'coverage', None):
            # VERIF_COVERAGE=1: action name -> [distinct states, states] per TLC run; an action that was never taken is listed
            acts = self.notes.setdefault('tlc_action_coverage', {})
            mod = getattr(res, 'module', '?')
            for a, (d, t) in res.coverage.items():
                cur = acts.setdefault(mod, {}).setdefault(a, [0, 0])
                cur[0] += d
                cur[1] += t
            never = sorted('%s!%s' % (m, a) for m, aa in acts.items() for a, c in aa.items() if c[1] == 0)
            self.notes['tlc_actions_never_taken'] = never

    def sample(self, s, limit=6):
        if len(self.cov['samples']) < limit:
            self.cov['samples'].append(s)

    def count(self, n=1):
        self.cov['evaluations'] += n

    def nontrivial(self, key):
        self.distinct.add(key)

    def note(self, k, v):
        self.notes[k] = v

    def stage(self, name):
        """wall time per stage of a check, recorded in the evidence notes (stage_wall_s)"""
        run = self

        class _S:
            def __enter__(self_):
                self_.t = time.time()

            def __exit__(self_, *a):
                run.notes.setdefault('stage_wall_s', {})[name] = round(time.time() - self_.t, 1)
                return False
        return _S()

    def drift_note(self, msg):
        if msg not in self.drift:
            self.drift.append(msg)
            print('MODEL-DRIFT: property=%s %s' % (self.pid, msg))

    # -- verdicts ---------------------------------------------------------
    def violation(self, signature, witness, what=None):
        """Report a witness against the real code. signature identifies the failing site."""
        for f in self.findings:
            if f.get('property') == self.pid and f.get('status') == 'known' and sig_match(f['signature'], signature):
                if f['signature'] not in self.known_hits:
                    self.known_hits[f['signature']] = f.get('witness', what or signature)
                return False
        for v in self.violations:
            if v['signature'] == signature:
                v['count'] += 1
                return True
        d = OUT / 'violations' / self.pid
        d.mkdir(parents=True, exist_ok=True)
        path = d / ('%d.json' % (len(self.violations) + 1))
        rec = {'property': self.pid, 'signature': signature, 'what': what, 'witness': witness,
               'seed': self.seed, 'tier': self.tier}
        path.write_text(json.dumps(rec, indent=1, default=str))
        self.violations.append({'signature': signature, 'path': str(path), 'count': 1, 'what': what})
        return True

    def finish(self, coverage_extra=None, rule=None):
        cov = dict(self.cov)
        cov['distinct_nontrivial'] = len(self.distinct)
        if rule:
            cov['rule'] = rule
        cov.update(self.notes)
        if coverage_extra:
            cov.update(coverage_extra)
        if self.drift:
            cov['model_drift'] = self.drift
        cov['known_findings_reproduced'] = sorted(self.known_hits)
        cov['violation_signatures'] = [v['signature'] for v in self.violations]
        if not cov['samples']:
            cov['samples'] = ['(none recorded)']
        ev = {'property_id': self.pid, 'tier': self.tier, 'seed': self.seed, 'level': self.level,
              'coverage': cov, 'assumptions': self.assumptions,
              'wall_s': round(time.time() - self.t0, 2), 'violations': len(self.violations)}
        os.chdir(self._cwd)
        EVIDENCE.mkdir(exist_ok=True)
        (EVIDENCE / (self.pid + '.json')).write_text(json.dumps(ev, indent=1, default=str) + '\n')
        for sig, wit in sorted(self.known_hits.items()):
            print('KNOWN-FINDING: property=%s %s [%s]' % (self.pid, wit, sig))
        for v in self.violations:
            print('VIOLATION property=%s replay=%s' % (self.pid, v['path']))
            print('  signature=%s count=%d %s' % (v['signature'], v['count'], v['what'] or ''))
        print('%s %s: states=%d transitions=%d traces=%d evaluations=%d distinct=%d wall=%.1fs violations=%d known=%d'
              % (self.pid, self.tier, cov['states'], cov['transitions'], cov['traces_validated_against_impl'],
                 cov['evaluations'], cov['distinct_nontrivial'], ev['wall_s'], len(self.violations),
                 len(self.known_hits)))
        return 1 if self.violations else 0


def sig_match(pattern, sig):
    """Known-finding signatures may end with '*' (prefix match on the site)."""
    if pattern.endswith('*'):
        return sig.startswith(pattern[:-1])
    return pattern == sig


def load_findings():
    if FINDINGS.exists():
        return json.loads(FINDINGS.read_text()).get('findings', [])
    return []
