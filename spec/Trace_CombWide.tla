--------------------------- MODULE Trace_CombWide ---------------------------
(* C07 / C08 / C14, binding V at port widths beyond TLC's integers (31..64    *)
(* bit): truth-table rows recorded from the real simulator, every value a     *)
(* limb vector (base 2^15, little endian), judged against LibraryWide!WideRef *)
(* (which Trace_Comb ties to Library!CombRef on all small-width tables).      *)
(*   table = [kind, c, iw, ow, rows]   row = inputs \o outputs (limb vectors) *)
EXTENDS LibraryWide, Json, IOUtils, TLC

VARIABLES tid, done
Tables == JsonDeserialize(IOEnv.TRACE_FILE)

Init == tid \in 1..Len(Tables) /\ done = FALSE

Differs(exp, ov, ow) ==
    \/ Len(exp) # Len(ov)
    \/ \E k \in 1..Len(ov) : exp[k] # WDC /\ Norm(exp[k], ow[k]) # Norm(ov[k], ow[k])

Expected(t, row) == WideRefA(t.kind, t.c, SubSeq(row, 1, Len(t.iw)), t.iw, t.ow)
RowBad(t, row) == Differs(Expected(t, row), SubSeq(row, Len(t.iw) + 1, Len(row)), t.ow)
Constrained(t, row) == \E k \in 1..Len(t.ow) : Expected(t, row)[k] # WDC

Judge ==
    /\ ~done
    /\ done' = TRUE
    /\ UNCHANGED tid
    /\ LET t == Tables[tid]
           bad == {r \in 1..Len(t.rows) : RowBad(t, t.rows[r])}
           nc == Cardinality({r \in 1..Len(t.rows) : Constrained(t, t.rows[r])})
       IN  IF bad = {} THEN PrintT(ToJson(<<"J", tid, Len(t.rows), nc>>))
           ELSE LET r == CHOOSE r \in bad : \A q \in bad : r <= q
                IN  PrintT(ToJson(<<"V", tid, r, Expected(t, t.rows[r]), Cardinality(bad)>>))

Next == Judge
=============================================================================
