------------------------------ MODULE Kernel ------------------------------
(* The py4hw cycle simulator as a state machine.                            *)
(*                                                                          *)
(*   Simulator.topologicalSort   -> SortPass (one pass of the swap loop)    *)
(*   Simulator.propagateAll      -> PropAll  (leaves evaluated in `order`)  *)
(*   Simulator.clk(n)            -> ClkCall(n)                              *)
(*   Simulator._clk_cycle        -> PickDomain / ClockLeaf (any order),     *)
(*                                  Settle (Wire.settleAll + propagateAll   *)
(*                                  + listeners + total_clks)               *)
(*   test bench wire.put(v)      -> Poke                                    *)
(*                                                                          *)
(* The netlist is the record `net` (chosen by the model's Init or loaded    *)
(* from a netlist extracted from a live py4hw object):                      *)
(*   net.width  : Seq(Nat)             width of wire k                      *)
(*   net.leaves : Seq([kind, ins, outs, p, dom])  in allLeaves() order      *)
(*   net.doms   : Seq([en |-> wire or 0])  clock drivers (dict order)       *)
EXTENDS PrimSem, FiniteSets, TLC

CONSTANT MaxPasses      \* 1000 in Simulator.topologicalSort

VARIABLES net,        \* the netlist (never changes after Init)
          val,        \* Wire.value            : Seq over wires
          nxt,        \* Wire.next             : Seq over wires
          prepared,   \* Wire.prepared         : Seq of wires
          st,         \* leaf internal state   : Seq over leaves
          order,      \* Simulator.propagatables : Seq of leaf indices
          pc,         \* "built" | "sorting" | "idle" | "edge" | "settled" | "raised"
          passes,     \* loopcount of the sorter
          pendD,      \* clock drivers not yet visited in this edge
          pendL,      \* clockables of the current driver not yet clocked
          cycles,     \* Simulator.total_clks
          budget,     \* cycles left in the current clk(n) call
          pre,        \* snapshot [val, st] taken when the current edge began
          skipped,    \* drivers skipped (enable = 0) in the current edge
          taint,      \* TRUE once a Div/Mod by zero has been evaluated
          dirty       \* TRUE while a poked value has not been propagated by clk() yet

kvars == <<net, val, nxt, prepared, st, order, pc, passes, pendD, pendL, cycles, budget, pre,
           skipped, taint, dirty>>

Wires  == 1..Len(net.width)
Leaves == 1..Len(net.leaves)
L(b)   == net.leaves[b]
IsComb(b) == L(b).kind \in CombKinds
IsSeq(b)  == L(b).kind \in SeqKinds
Doms   == 1..Len(net.doms)

SeqRange(s) == {s[k] : k \in 1..Len(s)}
Driven == UNION {SeqRange(L(b).outs) : b \in Leaves}
Undriven == Wires \ Driven

InVals(b, v)  == [k \in 1..Len(L(b).ins) |-> v[L(b).ins[k]]]
InWidths(b)   == [k \in 1..Len(L(b).ins) |-> net.width[L(b).ins[k]]]
OutWidths(b)  == [k \in 1..Len(L(b).outs) |-> net.width[L(b).outs[k]]]

\* ---------------------------------------------------------------- sorter
PosOf(ord, b) == CHOOSE k \in 1..Len(ord) : ord[k] = b

\* propagatable leaves reading a wire that b drives
Dependents(b) == {c \in Leaves : IsComb(c) /\ SeqRange(L(c).ins) \cap SeqRange(L(b).outs) # {}}

\* Simulator.findFirstDependentPosition: 0 stands for the code's -1
FirstDep(ord, b) ==
    LET ps == {PosOf(ord, c) : c \in Dependents(b)}
    IN  IF ps = {} THEN 0 ELSE CHOOSE m \in ps : \A q \in ps : m <= q

RECURSIVE PassFrom(_, _, _)
\* one pass of the for-loop from position k; result [ord, changed, loop]
\* loop = TRUE when the leaf at position k depends on itself (pos == i):
\* the sorter raises immediately (combinational self-loop).
PassFrom(ord, k, ch) ==
    IF k > Len(ord) THEN [ord |-> ord, changed |-> ch, loop |-> FALSE]
    ELSE LET pos == FirstDep(ord, ord[k]) IN
         IF pos = k THEN [ord |-> ord, changed |-> ch, loop |-> TRUE]
         ELSE IF pos >= 1 /\ pos < k
              THEN PassFrom([ord EXCEPT ![pos] = ord[k], ![k] = ord[pos]], k + 1, TRUE)
              ELSE PassFrom(ord, k + 1, ch)

CombOrder0 == LET F[k \in 0..Len(net.leaves)] ==
                     IF k = 0 THEN <<>>
                     ELSE IF IsComb(k) THEN Append(F[k - 1], k) ELSE F[k - 1]
              IN  F[Len(net.leaves)]

\* ------------------------------------------------------------ propagation
RECURSIVE PutOuts(_, _, _, _)
PutOuts(v, b, raw, k) ==
    IF k > Len(L(b).outs) THEN v
    ELSE PutOuts([v EXCEPT ![L(b).outs[k]] = Put(raw[k], net.width[L(b).outs[k]])], b, raw, k + 1)

PropLeaf(v, b) ==
    PutOuts(v, b, CombRaw(L(b).kind, L(b).p, InVals(b, v), InWidths(b), OutWidths(b)), 1)

RECURSIVE PropSeq(_, _, _)
PropSeq(v, ord, k) == IF k > Len(ord) THEN v ELSE PropSeq(PropLeaf(v, ord[k]), ord, k + 1)

PropAll(v, ord) == PropSeq(v, ord, 1)

TaintIn(v, ord) == \E k \in 1..Len(ord) : Tainted(L(ord[k]).kind, InVals(ord[k], v))

\* ---------------------------------------------------------------- graph
\* combinational dependency edges b -> c
Edge(b, c) == IsComb(b) /\ c \in Dependents(b)

RECURSIVE ReachFrom(_, _)
ReachFrom(S, n) == IF n = 0 THEN S
                   ELSE ReachFrom(S \cup UNION {Dependents(b) : b \in {x \in S : IsComb(x)}}, n - 1)
\* b lies on a combinational cycle (self-loops included)
OnCycle(b) == IsComb(b) /\ b \in ReachFrom(Dependents(b), Len(net.leaves))
Cyclic == \E b \in Leaves : OnCycle(b)

Topological(ord) == \A x, y \in 1..Len(ord) : Edge(ord[x], ord[y]) => x < y

\* the same predicate in O(leaves * ports): last position in ord of a combinational driver of each wire
RECURSIVE MarkOuts(_, _, _, _)
MarkOuts(f, outs, k, pos) == IF k > Len(outs) THEN f ELSE MarkOuts([f EXCEPT ![outs[k]] = pos], outs, k + 1, pos)
RECURSIVE DrvPosFrom(_, _, _)
DrvPosFrom(f, ord, k) == IF k > Len(ord) THEN f
                         ELSE DrvPosFrom(IF IsComb(ord[k]) THEN MarkOuts(f, L(ord[k]).outs, 1, k) ELSE f, ord, k + 1)
TopoWith(ord, dp) == \A y \in 1..Len(ord) : IsComb(ord[y]) =>
                         \A i \in 1..Len(L(ord[y]).ins) : dp[L(ord[y]).ins[i]] < y
TopologicalFast(ord) == TopoWith(ord, DrvPosFrom([w \in Wires |-> 0], ord, 1))

\* every wire driven by a combinational leaf holds what that leaf computes
AtFixpoint(v) ==
    \A b \in Leaves : IsComb(b) =>
        LET raw == CombRaw(L(b).kind, L(b).p, InVals(b, v), InWidths(b), OutWidths(b))
        IN  \A k \in 1..Len(L(b).outs) : v[L(b).outs[k]] = Put(raw[k], net.width[L(b).outs[k]])

AtFixpointOf(v) == AtFixpoint(v)

\* ---------------------------------------------------------------- actions
ZeroVal == [w \in Wires |-> 0]
InitSt  == [b \in Leaves |-> IF IsSeq(b) THEN SeqInit(L(b).kind, L(b).p) ELSE 0]

KInit(n, v0) ==
    /\ net = n
    \* Reg.__init__ puts its reset value on q (power-up value)
    /\ val = [w \in 1..Len(n.width) |->
                IF \E b \in 1..Len(n.leaves) : n.leaves[b].kind = "Reg" /\ n.leaves[b].outs[1] = w
                THEN LET b == CHOOSE b \in 1..Len(n.leaves) : n.leaves[b].kind = "Reg" /\ n.leaves[b].outs[1] = w
                     IN  Put(n.leaves[b].p[3], n.width[w])
                ELSE v0[w]]
    /\ nxt = [w \in 1..Len(n.width) |-> 0]
    /\ prepared = <<>>
    /\ st = [b \in 1..Len(n.leaves) |->
               IF n.leaves[b].kind \in SeqKinds THEN SeqInit(n.leaves[b].kind, n.leaves[b].p) ELSE 0]
    /\ order = <<>>
    /\ pc = "built"
    /\ passes = 0
    /\ pendD = {}
    /\ pendL = {}
    /\ cycles = 0
    /\ budget = 0
    /\ pre = <<>>
    /\ skipped = {}
    /\ taint = FALSE
    /\ dirty = FALSE

\* HWSystem.getSimulator(), first call: collect leaves, then sort
GetSimulator ==
    /\ pc = "built"
    /\ order' = CombOrder0
    /\ passes' = 0
    /\ pc' = "sorting"
    /\ UNCHANGED <<net, val, nxt, prepared, st, pendD, pendL, cycles, budget, pre, skipped, taint, dirty>>

\* one iteration of  while (anyChange)
SortPass ==
    /\ pc = "sorting"
    /\ IF passes + 1 > MaxPasses
       THEN /\ pc' = "raised"
            /\ UNCHANGED <<order, val, taint>>
            /\ passes' = passes + 1
       ELSE LET r == PassFrom(order, 1, FALSE) IN
            /\ passes' = passes + 1
            /\ order' = r.ord
            /\ IF r.loop THEN pc' = "raised" /\ UNCHANGED <<val, taint>>
               ELSE IF r.changed THEN pc' = "sorting" /\ UNCHANGED <<val, taint>>
               ELSE \* sorted: Simulator.__init__ runs propagateAll()
                    /\ pc' = "idle"
                    /\ val' = PropAll(val, r.ord)
                    /\ taint' = (taint \/ TaintIn(val, r.ord))
    /\ UNCHANGED <<net, nxt, prepared, st, pendD, pendL, cycles, budget, pre, skipped, dirty>>

\* test bench: wire.put(v) on a wire nothing drives
Poke(w, v) ==
    /\ pc = "idle"
    /\ w \in Undriven
    /\ val' = [val EXCEPT ![w] = Put(v, net.width[w])]
    /\ dirty' = TRUE
    /\ UNCHANGED <<net, nxt, prepared, st, order, pc, passes, pendD, pendL, cycles, budget, pre,
                   skipped, taint>>

BeginEdge(v, s) ==
    /\ pendD' = Doms
    /\ pendL' = {}
    /\ skipped' = {}
    /\ pre' = <<v, s>>

\* Simulator.clk(n): propagateAll(), then n cycles
ClkCall(n) ==
    /\ pc = "idle"
    /\ LET v == PropAll(val, order) IN
       /\ val' = v
       /\ taint' = (taint \/ TaintIn(val, order))
       /\ budget' = n
       /\ IF n > 0 THEN pc' = "edge" /\ BeginEdge(v, st)
          ELSE pc' = "idle" /\ UNCHANGED <<pendD, pendL, skipped, pre>>
    /\ dirty' = FALSE
    /\ UNCHANGED <<net, nxt, prepared, st, order, passes, cycles>>

LeavesOf(d) == {b \in Leaves : IsSeq(b) /\ L(b).dom = d}

\* for drv in self.clockDrivers: enable sampled when the driver is visited
PickDomain(d) ==
    /\ pc = "edge" /\ pendL = {} /\ d \in pendD
    /\ pendD' = pendD \ {d}
    /\ IF net.doms[d].en # 0 /\ val[net.doms[d].en] = 0
       THEN pendL' = {} /\ skipped' = skipped \cup {d}
       ELSE pendL' = LeavesOf(d) /\ UNCHANGED skipped
    /\ UNCHANGED <<net, val, nxt, prepared, st, order, pc, passes, cycles, budget, pre, taint, dirty>>

\* obj.clock(): reads val (pre-edge), updates its state, prepares its outputs
ClockLeaf(b) ==
    /\ pc = "edge" /\ b \in pendL
    /\ LET r == SeqClock(L(b).kind, L(b).p, st[b], InVals(b, val)) IN
       /\ st' = [st EXCEPT ![b] = r.st]
       /\ nxt' = [w \in Wires |->
                    IF \E k \in 1..Len(r.prep) : k \notin r.skip /\ L(b).outs[k] = w
                    THEN LET k == CHOOSE k \in 1..Len(r.prep) : k \notin r.skip /\ L(b).outs[k] = w
                         IN  Put(r.prep[k], net.width[w])
                    ELSE nxt[w]]
       /\ prepared' = prepared \o SelectSeq([k \in 1..Len(r.prep) |-> IF k \in r.skip THEN 0 ELSE L(b).outs[k]],
                                             LAMBDA x : x # 0)
    /\ pendL' = pendL \ {b}
    /\ UNCHANGED <<net, val, order, pc, passes, pendD, cycles, budget, pre, skipped, taint, dirty>>

SettleVal == [w \in Wires |-> IF w \in SeqRange(prepared) THEN nxt[w] ELSE val[w]]

\* Wire.settleAll(); propagateAll(); listeners; total_clks += 1
Settle ==
    /\ pc = "edge" /\ pendD = {} /\ pendL = {}
    /\ val' = PropAll(SettleVal, order)
    /\ taint' = (taint \/ TaintIn(SettleVal, order))
    /\ prepared' = <<>>
    /\ cycles' = cycles + 1
    /\ budget' = budget - 1
    /\ pc' = "settled"
    /\ UNCHANGED <<net, nxt, st, order, passes, pendD, pendL, pre, skipped, dirty>>

\* next iteration of the for-loop in clk(), or return to the caller
Advance ==
    /\ pc = "settled"
    /\ IF budget > 0 THEN pc' = "edge" /\ BeginEdge(val, st)
       ELSE pc' = "idle" /\ UNCHANGED <<pendD, pendL, skipped, pre>>
    /\ UNCHANGED <<net, val, nxt, prepared, st, order, passes, cycles, budget, taint, dirty>>

\* ------------------------------------------------------------- properties
TypeOK == \A w \in Wires : val[w] \in 0..(Pow2(net.width[w]) - 1)

\* C04
SortedIsTopological == pc \in {"idle", "edge", "settled"} => Topological(order)
\* the linear formulation used on large extracted netlists is the same predicate
TopoFastAgrees      == order # <<>> => (Topological(order) = TopologicalFast(order))
CyclicRefused       == pc \in {"idle", "edge", "settled"} => ~Cyclic
AcyclicAccepted     == pc = "raised" => Cyclic
FixpointWhenIdle    == pc \in {"idle", "settled"} /\ ~taint /\ ~dirty => AtFixpoint(val)

\* C05: the order-free reference for one edge, computed from the snapshot
ActiveDoms(v) == {d \in Doms : ~(net.doms[d].en # 0 /\ v[net.doms[d].en] = 0)}

RECURSIVE EdgeStFrom(_, _, _, _, _)
EdgeStFrom(acc, v, s, act, b) ==
    IF b > Len(net.leaves) THEN acc
    ELSE EdgeStFrom(IF IsSeq(b) /\ L(b).dom \in act
                    THEN [acc EXCEPT ![b] = SeqClock(L(b).kind, L(b).p, s[b], InVals(b, v)).st]
                    ELSE acc, v, s, act, b + 1)

\* leaf states after the edge: every clockable of an active domain stepped on the pre-edge values
EdgeRefSt(v, s) == EdgeStFrom(s, v, s, ActiveDoms(v), 1)

RECURSIVE PrepOuts(_, _, _, _, _)
PrepOuts(v, b, prep, skip, k) ==
    IF k > Len(prep) THEN v
    ELSE PrepOuts(IF k \in skip THEN v ELSE [v EXCEPT ![L(b).outs[k]] = Put(prep[k], net.width[L(b).outs[k]])],
                  b, prep, skip, k + 1)

RECURSIVE EdgePrepFrom(_, _, _, _, _)
EdgePrepFrom(acc, v, s, act, b) ==
    IF b > Len(net.leaves) THEN acc
    ELSE EdgePrepFrom(IF IsSeq(b) /\ L(b).dom \in act
                      THEN LET r == SeqClock(L(b).kind, L(b).p, s[b], InVals(b, v))
                           IN  PrepOuts(acc, b, r.prep, r.skip, 1)
                      ELSE acc, v, s, act, b + 1)

\* wire values right after Wire.settleAll(): every prepared value applied to the pre-edge values
EdgeRefPrep(v, s) == EdgePrepFrom(v, v, s, ActiveDoms(v), 1)

\* one whole clock cycle as an order-free function of (val, st): [v, s]
CycleRef(v, s, ord) == [v |-> PropAll(EdgeRefPrep(v, s), ord), s |-> EdgeRefSt(v, s)]

RECURSIVE CyclesRef(_, _, _, _)
CyclesRef(v, s, ord, n) == IF n = 0 THEN [v |-> v, s |-> s]
                           ELSE LET c == CycleRef(v, s, ord) IN CyclesRef(c.v, c.s, ord, n - 1)

\* what a simulator listener sees: it is notified once after every cycle of a clk(n) call, with the wires as they are then
RECURSIVE CyclesSeenFrom(_, _, _, _, _), CyclesSeenWith(_, _, _, _)
CyclesSeenFrom(v, s, ord, n, acc) ==
    IF n = 0 THEN acc
    ELSE CyclesSeenWith(CycleRef(v, s, ord), ord, n, acc)
CyclesSeenWith(c, ord, n, acc) == CyclesSeenFrom(c.v, c.s, ord, n - 1, Append(acc, c.v))
CyclesSeen(v, s, ord, n) == CyclesSeenFrom(v, s, ord, n, <<>>)

EdgeAtomic ==
    pc = "settled" /\ ~taint =>
        /\ st = EdgeRefSt(pre[1], pre[2])
        /\ val = PropAll(EdgeRefPrep(pre[1], pre[2]), order)

PreparedEmpty == pc \in {"idle", "settled"} => prepared = <<>>

\* C10: a skipped domain keeps state and outputs
GatedHold ==
    pc = "settled" =>
        \A b \in Leaves : IsSeq(b) /\ L(b).dom \in skipped =>
            /\ st[b] = pre[2][b]
            /\ \A k \in 1..Len(L(b).outs) : val[L(b).outs[k]] = pre[1][L(b).outs[k]]
EnableSampledBeforeEdge == pc = "settled" => skipped = Doms \ ActiveDoms(pre[1])

=============================================================================
