------------------------------ MODULE PrimSem ------------------------------
(* Semantics of py4hw's primitive leaves exactly as propagate()/clock()     *)
(* compute them.  Results are RAW (unmasked): only Put/Prepare truncate,    *)
(* like Wire.put / Wire.prepare do in the code.                             *)
(*                                                                          *)
(* A leaf is a record [kind, ins, outs, p] ; `iv` = values of its input     *)
(* wires, `iw` = widths of its input wires, `ow` = widths of output wires,  *)
(* `p` = sequence of integer parameters.                                    *)
EXTENDS Bits

\* Wire.put / Wire.prepare
Put(x, w) == Trunc(x, w)

CombKinds == {"And2", "Or2", "Not", "Buf", "ZeroExtend", "Bit", "BitsLSBF", "BitsMSBF",
              "Range", "ConcatenateMSBF", "ConcatenateLSBF", "Repeat", "Constant", "Mux2",
              "ShiftLeftConstant", "ShiftRightConstant", "RotateLeftConstant",
              "RotateRightConstant", "AddCarryIn", "Sub", "Mul", "SignedMul", "Div", "Mod",
              "SignExtend", "GatedClock",
              \* abstract leaf shapes used by the kernel models
              "Xor2"}

SeqKinds == {"Reg", "SynchronousMemory", "Sequence", "Toggle", "UARTSerializer", "UARTDeserializer", "ClockSyncFSM"}

RECURSIVE ConcatFold(_, _, _)
\* fold v = (v << width(x)) | x over inputs k..Len
ConcatFold(iv, iw, k) ==
    IF k > Len(iv) THEN 0
    ELSE LET rest == ConcatFold(iv, iw, k + 1)
             restw == SeqSum(SubSeq(iw, k + 1, Len(iw)))
         IN  iv[k] * Pow2(restw) + rest

Reverse(s) == [k \in 1..Len(s) |-> s[Len(s) + 1 - k]]

RECURSIVE SignExtLoop(_, _, _, _)
\* value | (hb << i) for i in wa..wr-1, with hb = value >> (wa-1)  (the code's loop)
SignExtLoop(value, hb, i, wr) ==
    IF i >= wr THEN value
    ELSE SignExtLoop(IF BitAt(value, i) = 1 \/ hb = 0 THEN value ELSE value + hb * Pow2(i), hb, i + 1, wr)

\* TRUE when the simulator itself is documented as nondeterministic
Tainted(kind, iv) == kind \in {"Div", "Mod"} /\ iv[2] = 0

\* raw output values (one per output port) of a combinational leaf
CombRaw(kind, p, iv, iw, ow) ==
    CASE kind = "And2" -> <<BAnd(iv[1], iv[2], Max(iw[1], iw[2]))>>
      [] kind = "Or2"  -> <<BOr(iv[1], iv[2], Max(iw[1], iw[2]))>>
      [] kind = "Xor2" -> <<BXor(iv[1], iv[2], Max(iw[1], iw[2]))>>
      [] kind = "Not"  -> <<-iv[1] - 1>>
      [] kind \in {"Buf", "ZeroExtend", "GatedClock"} -> <<iv[1]>>
      [] kind = "Bit"  -> <<BitAt(iv[1], p[1])>>
      [] kind = "BitsLSBF" -> [j \in 1..Len(ow) |-> BitAt(iv[1], j - 1)]
      [] kind = "BitsMSBF" -> [j \in 1..Len(ow) |-> BitAt(iv[1], Len(ow) - j)]
      [] kind = "Range" -> <<Slice(iv[1], p[1], p[2])>>
      [] kind = "ConcatenateMSBF" -> <<ConcatFold(iv, iw, 1)>>
      [] kind = "ConcatenateLSBF" -> <<ConcatFold(Reverse(iv), Reverse(iw), 1)>>
      [] kind = "Repeat" -> <<IF iv[1] # 0 THEN Mask(ow[1]) ELSE 0>>
      [] kind = "Constant" -> <<p[1]>>
      [] kind = "Mux2" -> <<IF iv[1] % 2 = 1 THEN iv[3] ELSE iv[2]>>
      [] kind = "ShiftLeftConstant" -> <<Shl(iv[1], p[1])>>
      [] kind = "ShiftRightConstant" -> <<Shr(iv[1], p[1])>>
      [] kind = "RotateLeftConstant" -> <<BOr(Shl(iv[1], p[1]), Shr(iv[1], iw[1] - p[1]), iw[1] + p[1])>>
      [] kind = "RotateRightConstant" -> <<BOr(Shr(iv[1], p[1]), Shl(iv[1], iw[1] - p[1]), 2 * iw[1])>>
      [] kind = "AddCarryIn" -> <<iv[1] + iv[2] + iv[3]>>
      [] kind = "Sub" -> <<Trunc(iv[1] - iv[2], ow[1])>>
      [] kind = "Mul" -> <<iv[1] * iv[2]>>
      [] kind = "SignedMul" -> <<Trunc(ToSigned(iv[1], iw[1]) * ToSigned(iv[2], iw[2]), ow[1])>>
      [] kind = "Div" -> <<IF iv[2] = 0 THEN 0 ELSE iv[1] \div iv[2]>>
      [] kind = "Mod" -> <<IF iv[2] = 0 THEN 0 ELSE iv[1] % iv[2]>>
      [] kind = "SignExtend" -> <<SignExtLoop(iv[1], Shr(iv[1], iw[1] - 1), iw[1], ow[1])>>

\* ---------------------------------------------------------------------------
\* Sequential leaves.  SeqInit(kind,p) = internal state at construction;
\* SeqClock(kind,p,s,iv) = [st |-> new state, prep |-> sequence over the
\* output ports of raw prepared values, or <<>> when the leaf prepares nothing]
\*
\* Reg: p = <<hasEnable, hasReset, reset_value>>, ins = <<d>> \o (e) \o (r)
\* SynchronousMemory: p = <<addrWidth>>, ins = <<raddr, waddr, write, wdata>>
\* Sequence: p = <<once, v1, v2, ...>>
\* Toggle: abstract two-state FSM leaf (state flips when in = 1, out = old state)

SeqInit(kind, p) ==
    CASE kind = "Reg" -> p[3]
      [] kind = "SynchronousMemory" -> [a \in 1..Pow2(p[1]) |-> 0]
      [] kind = "Sequence" -> 0
      [] kind = "Toggle" -> 0
      [] kind = "UARTSerializer" -> <<0, 0, 0>>        \* state, count, txv
      [] kind = "UARTDeserializer" -> <<0, 0, 0, 0>>   \* state, count, state_v, temp
      [] kind = "ClockSyncFSM" -> 0

RegNext(p, s, iv) ==
    LET hasE == p[1] = 1
        hasR == p[2] = 1
        e == IF hasE THEN iv[2] ELSE 1
        r == IF hasR THEN iv[IF hasE THEN 3 ELSE 2] ELSE 0
    IN  IF r = 1 THEN p[3] ELSE IF e # 0 THEN iv[1] ELSE s

\* result: [st, prep, skip]; prep has one entry per output port, ports in `skip` are not prepared at this edge
SeqClock(kind, p, s, iv) ==
    CASE kind = "Reg" -> LET n == RegNext(p, s, iv) IN [st |-> n, prep |-> <<n>>, skip |-> {}]
      [] kind = "SynchronousMemory" ->
            [st |-> IF iv[3] # 0 THEN [s EXCEPT ![iv[2] + 1] = iv[4]] ELSE s,
             prep |-> <<s[iv[1] + 1]>>, skip |-> {}]
      [] kind = "Sequence" ->
            LET n == Len(p) - 1 IN
            [st |-> IF p[1] = 1 THEN (IF s < n - 1 THEN s + 1 ELSE s) ELSE (s + 1) % n,
             prep |-> <<p[s + 2]>>, skip |-> {}]
      [] kind = "Toggle" -> [st |-> IF iv[1] = 1 THEN 1 - s ELSE s, prep |-> <<s>>, skip |-> {}]
      [] kind = "UARTSerializer" ->
            \* ins: valid, v, uart_clock_posedge ; outs: ready, tx
            LET st == s[1]  cnt == s[2]  txv == s[3]  valid == iv[1]  v == iv[2]  pe == iv[3] IN
            (CASE st = 0 -> [st |-> <<1, cnt, txv>>, prep |-> <<1, 1>>, skip |-> {}]
              [] st = 1 -> IF valid # 0 THEN [st |-> <<2, cnt, v>>, prep |-> <<0, 0>>, skip |-> {2}]
                           ELSE [st |-> s, prep |-> <<0, 0>>, skip |-> {1, 2}]
              [] st = 2 -> [st |-> <<IF pe # 0 THEN 3 ELSE 2, cnt, txv>>, prep |-> <<0, 0>>, skip |-> {1, 2}]
              [] st = 3 -> [st |-> <<IF pe # 0 THEN 4 ELSE 3, 7, txv>>, prep |-> <<0, 0>>, skip |-> {1}]
              [] st = 4 -> [st |-> IF pe # 0 THEN <<IF cnt = 0 THEN 5 ELSE 4, IF cnt = 0 THEN 0 ELSE cnt - 1, txv \div 2>> ELSE s,
                            prep |-> <<0, txv % 2>>, skip |-> {1}]
              [] st = 5 -> [st |-> <<IF pe # 0 THEN 0 ELSE 5, cnt, txv>>, prep |-> <<0, 1>>, skip |-> {1}])
      [] kind = "UARTDeserializer" ->
            \* ins: rx, ready, rx_sample ; outs: valid, v, clock_desync
            LET dst == s[1]  cnt == s[2]  sv == s[3]  tmp == s[4]  rx == iv[1]  ready == iv[2]  smp == iv[3]
                \* first FSM (frame reception): m = [st, cnt, sv, tmp, pv (v prepared?), v, pd (desync prepared?), d]
                m == IF dst = 0 THEN [st |-> IF smp # 0 /\ rx = 0 THEN 2 ELSE 0, cnt |-> 0, sv |-> sv, tmp |-> 0,
                                     pv |-> FALSE, v |-> 0, pd |-> TRUE, d |-> 0]
                     ELSE IF smp # 0 THEN
                          (IF cnt = 8 THEN [st |-> 0, cnt |-> cnt, sv |-> 1, tmp |-> tmp, pv |-> TRUE, v |-> tmp, pd |-> TRUE, d |-> 1]
                           ELSE [st |-> 2, cnt |-> cnt + 1, sv |-> sv, tmp |-> BOr(tmp, rx * Pow2(cnt), 9), pv |-> FALSE, v |-> 0,
                                 pd |-> FALSE, d |-> 0])
                     ELSE [st |-> dst, cnt |-> cnt, sv |-> sv, tmp |-> tmp, pv |-> FALSE, v |-> 0, pd |-> FALSE, d |-> 0]
                \* second FSM (hand-off), running after the first within the same clock() call
                hv == IF m.sv = 1 /\ ready # 0 THEN [sv |-> 2, p |-> TRUE, x |-> 1]
                      ELSE IF m.sv = 2 /\ ready # 0 THEN [sv |-> 0, p |-> TRUE, x |-> 0]
                      ELSE [sv |-> m.sv, p |-> FALSE, x |-> 0]
            IN  [st |-> <<m.st, m.cnt, hv.sv, m.tmp>>, prep |-> <<hv.x, m.v, m.d>>,
                 skip |-> (IF hv.p THEN {} ELSE {1}) \cup (IF m.pv THEN {} ELSE {2}) \cup (IF m.pd THEN {} ELSE {3})]
      [] kind = "ClockSyncFSM" ->
            \* ins: start, stop ; outs: sync, active
            IF s = 0 THEN (IF iv[1] # 0 THEN [st |-> 1, prep |-> <<1, 1>>, skip |-> {}] ELSE [st |-> 0, prep |-> <<0, 0>>, skip |-> {}])
            ELSE (IF iv[2] # 0 THEN [st |-> 0, prep |-> <<0, 0>>, skip |-> {}] ELSE [st |-> 1, prep |-> <<0, 1>>, skip |-> {}])

=============================================================================
