--------------------------------- MODULE Axi ---------------------------------
(* The AXI4-Stream adapters of py4hw.emulation.vitiswrapping (C16).           *)
(*                                                                            *)
(* Two layers:                                                                *)
(*  - implementation-shaped: the registers of Axi2Reg (active, loaded, q) and *)
(*    Reg2Axi (active, tvalid, tdata, sent) with the enable/reset equations   *)
(*    the constructors build (A2RNext, R2ANext);                              *)
(*  - property layer: the statement, clause by clause, as predicates over     *)
(*    (observation before the edge, inputs, observation after the edge):      *)
(*    A2RProps, R2AProps.  Verdicts come only from the property layer.        *)
EXTENDS Naturals, Integers, Sequences, TLC

RegRule(s, d, e, r, rv) == IF r = 1 THEN rv ELSE IF e # 0 THEN d ELSE s
Or(a, b) == IF a = 1 \/ b = 1 THEN 1 ELSE 0
And(a, b) == IF a = 1 /\ b = 1 THEN 1 ELSE 0
Not(a) == 1 - a

\* ---------------------------------------------------------------- Axi2Reg
\* state/observation: [active, tready, loaded, q]   inputs: [start, reset, done, tvalid, tdata]
A2RInit == [active |-> 0, tready |-> 0, loaded |-> 0, q |-> 0]

A2RNext(s, i) ==
    LET ah == And(s.active, And(i.tvalid, s.tready))
        rl == Or(i.reset, Or(And(Not(s.active), i.start), i.done))
        act == RegRule(s.active, i.start, i.start, Or(i.reset, i.done), 0)
    IN  [active |-> act, tready |-> act,
         loaded |-> RegRule(s.loaded, ah, ah, rl, 0),
         q |-> RegRule(s.q, i.tdata, ah, rl, 0)]

ActiveRef(s, i) == IF i.reset = 1 \/ i.done = 1 THEN 0 ELSE IF i.start = 1 THEN 1 ELSE s.active

\* a beat is transferred at this edge
A2RXfer(s, i) == s.tready = 1 /\ i.tvalid = 1 /\ s.active = 1
A2RClear(s, i) == i.reset = 1 \/ i.done = 1 \/ (i.start = 1 /\ s.active = 0)

A2RProps(s, i, t) ==
    [ready_iff_active |-> t.tready = t.active,
     active_ref |-> t.active = ActiveRef(s, i),
     holds_last_beat |->
        CASE A2RClear(s, i) /\ ~A2RXfer(s, i) -> t.loaded = 0 /\ t.q = 0
          [] A2RClear(s, i) /\ A2RXfer(s, i) -> (t.loaded = 0 /\ t.q = 0) \/ (t.loaded = 1 /\ t.q = i.tdata)
          [] ~A2RClear(s, i) /\ A2RXfer(s, i) -> t.loaded = 1 /\ t.q = i.tdata
          [] OTHER -> t.loaded = s.loaded /\ t.q = s.q]

\* p = observation with the inputs of this cycle applied but BEFORE the edge: READY must follow `active` there as well
\* (a READY that depends combinationally on the control inputs is low while the adapter is still active), and
\* applying inputs alone changes no register
A2RPreProps(s, i, p) ==
    [ready_iff_active_before_edge |-> p.tready = p.active,
     registers_hold_until_edge |-> p.active = s.active /\ p.loaded = s.loaded /\ p.q = s.q]

\* ---------------------------------------------------------------- Reg2Axi
\* state/observation: [active, tvalid, tdata, tlast, tkeep, sent]
\* inputs: [start, reset, done, load, regin, tready]
R2AInit(keep) == [active |-> 0, tvalid |-> 0, tdata |-> 0, tlast |-> 0, tkeep |-> keep, sent |-> 0]

R2ANext(s, i) ==
    LET ah == And(s.active, And(s.tvalid, i.tready))
        setv == And(i.load, s.active)
        tv == RegRule(s.tvalid, setv, setv, Or(i.reset, ah), 0)
        rs == Or(i.reset, Or(And(Not(s.active), i.start), i.done))
    IN  [active |-> RegRule(s.active, i.start, i.start, Or(i.reset, i.done), 0),
         tvalid |-> tv, tlast |-> tv,
         tdata |-> RegRule(s.tdata, i.regin, setv, 0, 0),
         tkeep |-> s.tkeep,
         sent |-> RegRule(s.sent, ah, ah, rs, 0)]

R2AAccepted(s, i) == s.tvalid = 1 /\ i.tready = 1
R2ALoad(s, i) == i.load = 1 /\ s.active = 1

\* g = value captured by the latest effective load pulse (-1: none yet)
R2AGhost(g, s, i) == IF R2ALoad(s, i) THEN i.regin ELSE g

R2AProps(s, i, t, g) ==
    [valid_stable |-> (s.tvalid = 1 /\ ~R2AAccepted(s, i) /\ i.reset = 0) => t.tvalid = 1,
     valid_raised |-> (R2ALoad(s, i) /\ i.reset = 0 /\ ~R2AAccepted(s, i)) => t.tvalid = 1,
     data_is_latest_load |-> t.tvalid = 1 => t.tdata = R2AGhost(g, s, i),
     last_equals_valid |-> t.tlast = t.tvalid,
     keep_constant |-> t.tkeep = s.tkeep,
     sent_only_after_accept |-> (t.sent = 1 /\ s.sent = 0) => R2AAccepted(s, i),
     active_ref |-> t.active = ActiveRef(s, i)]

\* VALID, DATA, LAST and the flags stay what they were until the edge, whatever the peer and the control inputs do
R2APreProps(s, i, p) ==
    [stable_until_edge |-> p.tvalid = s.tvalid /\ p.tdata = s.tdata /\ p.tlast = s.tlast /\ p.tkeep = s.tkeep
                           /\ p.sent = s.sent /\ p.active = s.active]

AllTrue(r) == \A f \in DOMAIN r : r[f]
FirstFalse(r) == CHOOSE f \in DOMAIN r : ~r[f]
=============================================================================
