-------------------------------- MODULE MC_Gen --------------------------------
(* C19: all call histories (new generator, whole-hierarchy request, single      *)
(* module request from the block's own generator or from an ancestor's,         *)
(* simulation step) over two circuits that share block kinds and wire names.    *)
(* Every history is printed for replay on real generators and circuits.         *)
EXTENDS GenHistory, Json
CONSTANT EmitMod
Init == GInit
Next == GNext /\ (IF RandomElement(1..EmitMod) = 1 THEN PrintT(ToJson(<<"G", hist'>>)) ELSE TRUE)
=============================================================================
