------------------------------- MODULE Bits -------------------------------
(* Bit-vector arithmetic on naturals < 2^30 (TLC integers are 32-bit).      *)
EXTENDS Naturals, Integers, Sequences

RECURSIVE Pow2(_)
Pow2(n) == IF n = 0 THEN 1 ELSE 2 * Pow2(n - 1)

Mask(w) == Pow2(w) - 1

\* Python's  x & ((1<<w)-1)  for any integer x (negative x wraps).
Trunc(x, w) == x % Pow2(w)

BitAt(x, k) == (x \div Pow2(k)) % 2

\* bits [hi..lo] of x, right aligned
Slice(x, hi, lo) == (x \div Pow2(lo)) % Pow2(hi - lo + 1)

Msb(x, w) == BitAt(x, w - 1)

\* two's complement interpretation of the w-bit pattern x
ToSigned(x, w) == IF Msb(x, w) = 1 THEN x - Pow2(w) ELSE x
FromSigned(s, w) == s % Pow2(w)

\* sign extension of the wa-bit pattern x to wr bits (wr >= wa), truncation otherwise
SignExt(x, wa, wr) == FromSigned(ToSigned(x % Pow2(wa), wa), wr)

Shl(x, n) == x * Pow2(n)
Shr(x, n) == x \div Pow2(n)
\* (x << n) mod 2^w without ever forming x * 2^n (TLC integers are 32 bit)
ShlMod(x, n, w) == IF n >= w THEN 0 ELSE (x % Pow2(w - n)) * Pow2(n)
\* arithmetic shift right of the w-bit pattern x: floor(signed(x) / 2^n)
Sar(x, n, w) == FromSigned(ToSigned(x, w) \div Pow2(n), w)

RECURSIVE BitFold(_, _, _, _)
\* combine bits 0..w-1 of a and b with op(bit, bit)
BitFold(op(_, _), a, b, w) ==
    IF w = 0 THEN 0
    ELSE op(a % 2, b % 2) + 2 * BitFold(op, a \div 2, b \div 2, w - 1)

AndBit(x, y) == IF x = 1 /\ y = 1 THEN 1 ELSE 0
OrBit(x, y)  == IF x = 1 \/ y = 1 THEN 1 ELSE 0
XorBit(x, y) == IF x # y THEN 1 ELSE 0

BAnd(a, b, w) == BitFold(AndBit, a, b, w)
BOr(a, b, w)  == BitFold(OrBit, a, b, w)
BXor(a, b, w) == BitFold(XorBit, a, b, w)
BNot(a, w)    == Mask(w) - (a % Pow2(w))

RECURSIVE PopCount(_)
PopCount(x) == IF x = 0 THEN 0 ELSE (x % 2) + PopCount(x \div 2)

RECURSIVE BitLen(_)
BitLen(x) == IF x = 0 THEN 0 ELSE 1 + BitLen(x \div 2)

\* leading zeros of x seen as a w-bit pattern
Clz(x, w) == w - BitLen(x % Pow2(w))

\* rotate the w-bit pattern x left / right by n (0 <= n <= w)
Rotl(x, n, w) == ShlMod(x, n, w) + (x \div Pow2(w - n))
Rotr(x, n, w) == (x \div Pow2(n)) + ShlMod(x, w - n, w)

Max(a, b) == IF a >= b THEN a ELSE b
Min(a, b) == IF a <= b THEN a ELSE b
Abs(a) == IF a < 0 THEN -a ELSE a

RECURSIVE SeqSum(_)
SeqSum(s) == IF s = <<>> THEN 0 ELSE Head(s) + SeqSum(Tail(s))

=============================================================================
