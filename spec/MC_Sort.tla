------------------------------ MODULE MC_Sort ------------------------------
(* C04: all netlists of N combinational leaves (every input wired to any    *)
(* primary input or any leaf output: all DAGs and all cyclic graphs, self-  *)
(* loops included) in every instantiation order, sorted and settled by the  *)
(* Kernel.  Each terminal state is printed for replay on the real code.     *)
EXTENDS Kernel, Json

CONSTANTS N,          \* number of leaves
          P,          \* number of primary inputs (2-bit wires 1..P)
          Shapes,     \* subset of {"And2","Or2","Not","Buf","BitsLSBF","Constant"}
          InputVals,  \* values poked on every primary input before construction
          Emit,       \* TRUE: print terminal states
          EmitMod     \* print a random 1/EmitMod sample of them (1 = all)

NIn(sh)  == CASE sh \in {"And2", "Or2"} -> 2 [] sh \in {"Not", "Buf", "BitsLSBF"} -> 1 [] sh = "Constant" -> 0
NOut(sh) == IF sh = "BitsLSBF" THEN 2 ELSE 1

\* wires: 1..P primary inputs, then the outputs of leaf 1, leaf 2, ...
RECURSIVE OutBase(_, _)
OutBase(shs, b) == IF b = 1 THEN P ELSE OutBase(shs, b - 1) + NOut(shs[b - 1])

NWires(shs) == OutBase(shs, N) + NOut(shs[N])

MkNet(shs, ins) ==
    [width  |-> [w \in 1..NWires(shs) |->
                   IF \E b \in 1..N : shs[b] = "BitsLSBF" /\ w \in (OutBase(shs, b) + 1)..(OutBase(shs, b) + 2)
                   THEN 1 ELSE 2],
     leaves |-> [b \in 1..N |->
                   [kind |-> shs[b], ins |-> ins[b],
                    outs |-> [k \in 1..NOut(shs[b]) |-> OutBase(shs, b) + k],
                    p |-> IF shs[b] = "Constant" THEN <<2>> ELSE <<>>, dom |-> 0]],
     doms   |-> <<>>]

\* the input tuples of leaf b: exactly NIn wires each (enumerated leaf by leaf: the set of all functions
\* [1..N -> tuples of any length] is too large for TLC to build when N = 4)
InsOf(shs, b) == IF b <= N THEN [1..NIn(shs[b]) -> 1..NWires(shs)] ELSE {<<>>}
InitWith(shs, ins, iv) ==
        \* BitsLSBF needs a 2-bit input to have two outputs
        /\ \A b \in 1..N : shs[b] = "BitsLSBF" => MkNet(shs, ins).width[ins[b][1]] = 2
        /\ KInit(MkNet(shs, ins), [w \in 1..NWires(shs) |-> IF w <= P THEN iv ELSE 0])
Init ==
    \E shs \in [1..N -> Shapes] :
    \E i1 \in InsOf(shs, 1), i2 \in InsOf(shs, 2), i3 \in InsOf(shs, 3), i4 \in InsOf(shs, 4), i5 \in InsOf(shs, 5) :
    \E iv \in InputVals :
        InitWith(shs, [b \in 1..N |-> <<i1, i2, i3, i4, i5>>[b]], iv)

Terminal == pc \in {"idle", "raised"}

Report ==
    /\ Terminal
    /\ Emit
    /\ (EmitMod = 1 \/ RandomElement(1..EmitMod) = 1)
    /\ PrintT(ToJson(<<"T", [k \in 1..N |-> L(k).kind], [k \in 1..N |-> L(k).ins], val[1],
                pc, order, passes, Cyclic,
                IF pc = "idle" THEN val ELSE <<>>>>))
    /\ FALSE

Next ==
    \/ GetSimulator
    \/ SortPass
    \/ Report

Spec == Init /\ [][Next]_kvars

\* lemma used to transfer the result to MaxPasses = 1000
PassesBounded == passes <= N + 2
=============================================================================
