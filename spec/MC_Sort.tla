------------------------------ MODULE MC_Sort ------------------------------
(* C04: all netlists of N combinational leaves (every input wired to any    *)
(* primary input or any leaf output: all DAGs and all cyclic graphs, self-  *)
(* loops included) in every instantiation order, sorted and settled by the  *)
(* Kernel.  Each terminal state is printed for replay on the real code.     *)
EXTENDS Kernel, Json

CONSTANTS N,          \* number of leaves
          P,          \* number of primary inputs (2-bit wires 1..P)
          Shapes,     \* subset of {"And2","Or2","Not","Buf","BitsLSBF","Constant"}
          InputVals,  \* values poked on every primary input before construction
          Emit        \* TRUE: print every terminal state

NIn(sh)  == CASE sh \in {"And2", "Or2"} -> 2 [] sh \in {"Not", "Buf", "BitsLSBF"} -> 1 [] sh = "Constant" -> 0
NOut(sh) == IF sh = "BitsLSBF" THEN 2 ELSE 1

\* wires: 1..P primary inputs, then the outputs of leaf 1, leaf 2, ...
RECURSIVE OutBase(_, _)
OutBase(shs, b) == IF b = 1 THEN P ELSE OutBase(shs, b - 1) + NOut(shs[b - 1])

NWires(shs) == OutBase(shs, N) + NOut(shs[N])

MkNet(shs, ins) ==
    [width  |-> [w \in 1..NWires(shs) |->
                   IF \E b \in 1..N : shs[b] = "BitsLSBF" /\ w \in (OutBase(shs, b) + 1)..(OutBase(shs, b) + 2)
                   THEN 1 ELSE 2],
     leaves |-> [b \in 1..N |->
                   [kind |-> shs[b], ins |-> ins[b],
                    outs |-> [k \in 1..NOut(shs[b]) |-> OutBase(shs, b) + k],
                    p |-> IF shs[b] = "Constant" THEN <<2>> ELSE <<>>, dom |-> 0]],
     doms   |-> <<>>]

Init ==
    \E shs \in [1..N -> Shapes] :
    \E ins \in [1..N -> UNION {[1..k -> 1..NWires(shs)] : k \in 0..2}] :
    \E iv \in InputVals :
        /\ \A b \in 1..N : Len(ins[b]) = NIn(shs[b])
        \* BitsLSBF needs a 2-bit input to have two outputs
        /\ \A b \in 1..N : shs[b] = "BitsLSBF" => MkNet(shs, ins).width[ins[b][1]] = 2
        /\ KInit(MkNet(shs, ins), [w \in 1..NWires(shs) |-> IF w <= P THEN iv ELSE 0])

Terminal == pc \in {"idle", "raised"}

Report ==
    /\ Terminal
    /\ Emit
    /\ PrintT(ToJson(<<"T", [k \in 1..N |-> L(k).kind], [k \in 1..N |-> L(k).ins], val[1],
                pc, order, passes, Cyclic,
                IF pc = "idle" THEN val ELSE <<>>>>))
    /\ FALSE

Next ==
    \/ GetSimulator
    \/ SortPass
    \/ Report

Spec == Init /\ [][Next]_kvars

\* lemma used to transfer the result to MaxPasses = 1000
PassesBounded == passes <= N + 2
=============================================================================
