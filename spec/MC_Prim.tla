------------------------------ MODULE MC_Prim ------------------------------
(* C06 (and the binding of PrimSem to the code): every primitive leaf, alone *)
(* under a top level, at every combination of port widths, every parameter   *)
(* (constants and reset values negative and oversized, shift amounts beyond   *)
(* the width) and every input value.  TLC checks that every wire stays in    *)
(* 0 .. 2^width-1 (TypeOK) although PrimSem computes unmasked results, and    *)
(* prints each case for replay on the real primitive.                        *)
EXTENDS Kernel, Json

CONSTANTS Kinds, Widths, ParamVals, ShiftVals, Emit

VARIABLE phase   \* "new" | "sim" | "clk" | "done"
pvars == <<kvars, phase>>

NIn(k) == CASE k \in {"And2", "Or2", "Sub", "Mul", "SignedMul", "Div", "Mod"} -> {2}
            [] k \in {"Not", "Buf", "ZeroExtend", "SignExtend", "Bit", "BitsLSBF", "BitsMSBF", "Range", "Repeat",
                      "ShiftLeftConstant", "ShiftRightConstant", "RotateLeftConstant", "RotateRightConstant"} -> {1}
            [] k \in {"ConcatenateMSBF", "ConcatenateLSBF"} -> {1, 2, 3}
            [] k \in {"Constant", "Sequence"} -> {0}
            [] k \in {"Mux2", "AddCarryIn"} -> {3}
            [] k = "Reg" -> {1, 2, 3}
            [] k = "SynchronousMemory" -> {4}

Params(k, iw, ow) ==
    CASE k = "Bit" -> {<<b>> : b \in 0..3}
      [] k = "Range" -> {<<h, l>> : h \in 0..3, l \in 0..3} \cap {x \in Seq(0..3) : Len(x) = 2 /\ x[1] >= x[2]}
      [] k = "Constant" -> {<<c>> : c \in ParamVals}
      [] k \in {"ShiftLeftConstant", "ShiftRightConstant"} -> {<<n>> : n \in ShiftVals}
      [] k \in {"RotateLeftConstant", "RotateRightConstant"} -> {<<n>> : n \in 0..iw[1]}
      [] k = "Reg" -> {<<IF Len(iw) >= 2 THEN 1 ELSE 0, r, v>> : r \in (IF Len(iw) = 3 THEN {1} ELSE IF Len(iw) = 2 THEN {0, 1} ELSE {0}),
                                                              v \in ParamVals}
      [] k = "Sequence" -> {<<o, a, b>> : o \in {0, 1}, a \in ParamVals, b \in {0, 7}}
      [] k = "SynchronousMemory" -> {<<1>>}
      [] OTHER -> {<<>>}

\* Reg with two inputs: p[1]=1,p[2]=0 means <<d,e>>; p[1]=1... the two-input reset-only form is <<0,1,v>>
RegParam(iw, p) == IF Len(iw) = 2 /\ p[2] = 1 THEN <<0, 1, p[3]>> ELSE p

NOutOf(k, iw) == IF k \in {"BitsLSBF", "BitsMSBF"} THEN iw[1] ELSE 1

Legal(k, iw, ow) ==
    /\ k = "Repeat" => iw[1] = 1
    /\ k \in {"BitsLSBF", "BitsMSBF"} => \A j \in 1..Len(ow) : ow[j] = 1
    /\ k \in {"ConcatenateMSBF", "ConcatenateLSBF"} => SeqSum(iw) <= ow[1]
    /\ k = "AddCarryIn" => ow[1] >= iw[1]
    /\ k = "SynchronousMemory" => iw[1] = 1 /\ iw[2] = 1

MkNet(k, iw, ow, p) ==
    [width  |-> iw \o ow,
     leaves |-> <<[kind |-> k, ins |-> [j \in 1..Len(iw) |-> j], outs |-> [j \in 1..Len(ow) |-> Len(iw) + j],
                   p |-> IF k = "Reg" THEN RegParam(iw, p) ELSE p, dom |-> IF k \in SeqKinds THEN 1 ELSE 0]>>,
     doms   |-> <<[en |-> 0]>>]

RECURSIVE AllVals(_)
\* all value vectors for the given widths
AllVals(ws) == IF ws = <<>> THEN {<<>>}
               ELSE {<<v>> \o r : v \in 0..(Pow2(Head(ws)) - 1), r \in AllVals(Tail(ws))}

Init ==
    \E k \in Kinds : \E n \in NIn(k) : \E iw \in [1..n -> Widths] :
    \E ow \in [1..NOutOf(k, iw) -> Widths] :
    \E p \in Params(k, iw, ow) : \E iv \in AllVals(iw) :
        /\ Legal(k, iw, ow)
        /\ KInit(MkNet(k, iw, ow, p), iv \o [j \in 1..Len(ow) |-> 0])
        /\ phase = "new"

Report == IF Emit THEN PrintT(ToJson(<<"P", L(1).kind, net.width, L(1).ins, L(1).outs, L(1).p, pre, val, st[1], taint>>))
          ELSE TRUE

Next ==
    \/ (phase = "new" /\ GetSimulator /\ phase' = "sim")
    \/ (phase = "sim" /\ SortPass /\ UNCHANGED phase)
    \/ (phase = "sim" /\ pc = "idle" /\ ClkCall(2) /\ phase' = "clk")
    \/ (phase = "clk" /\ (\E d \in Doms : PickDomain(d)) /\ UNCHANGED phase)
    \/ (phase = "clk" /\ (\E b \in Leaves : ClockLeaf(b)) /\ UNCHANGED phase)
    \/ (phase = "clk" /\ Settle /\ UNCHANGED phase)
    \/ (phase = "clk" /\ Advance /\ (IF budget = 0 THEN phase' = "done" /\ Report ELSE UNCHANGED phase))

Spec == Init /\ [][Next]_pvars
=============================================================================
