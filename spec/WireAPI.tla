------------------------------- MODULE WireAPI -------------------------------
(* C06: the Wire object itself (py4hw/base.py: put, prepare, settle, settleAll)  *)
(* under arbitrary drivers.  A sequential driver may call prepare() on its       *)
(* output any number of times inside one clock() call, each time with an         *)
(* arbitrary Python integer (negative, wider than the wire): the last prepared   *)
(* value wins and becomes visible, truncated to the width, when the edge         *)
(* settles; a cycle without prepare() keeps the value.  A combinational driver   *)
(* put()s an arbitrary integer computed from what it reads.                      *)
(*   q : wire of width W driven by the sequential script                         *)
(*   r : wire of width WR driven by a combinational table indexed by q           *)
(* TLC enumerates every (state, script of one cycle) transition and prints one   *)
(* history per transition (hist is hidden by the VIEW); the harness replays      *)
(* each on a real Wire through script-driven behavioural blocks.                 *)
EXTENDS Bits, Sequences, TLC, Json

CONSTANTS W, WR,        \* widths of q and r
          Vals,         \* raw integers a driver may hand to prepare() / put()
          MaxPrep,      \* prepare() calls per clock() call: 0..MaxPrep
          Table,        \* raw value put on r for each value of q  (sequence of length 2^W)
          MaxCycles

VARIABLES q, r, cyc, hist
vars == <<q, r, cyc, hist>>

InRange(v, w) == v \in 0..(Pow2(w) - 1)

\* all scripts of length 0..MaxPrep
AllScripts == UNION {[1..n -> Vals] : n \in 0..MaxPrep}

CombOut(qv) == Trunc(Table[qv + 1], WR)

Init == q = 0 /\ r = CombOut(0) /\ cyc = 0 /\ hist = <<>>

\* one clock cycle: the sequential driver runs its script, the edge settles, the combinational driver propagates
Cycle(s) ==
    /\ cyc < MaxCycles
    /\ q' = IF Len(s) = 0 THEN q ELSE Trunc(s[Len(s)], W)
    /\ r' = CombOut(q')
    /\ cyc' = cyc + 1
    /\ hist' = Append(hist, [script |-> s, q |-> q', r |-> r'])
    /\ PrintT(ToJson(<<"W", hist'>>))          \* one history per transition

Next == \E s \in AllScripts : Cycle(s)

Spec == Init /\ [][Next]_vars

View == <<q, r, cyc>>

\* C06 on the model
TypeOK == InRange(q, W) /\ InRange(r, WR)

=============================================================================
