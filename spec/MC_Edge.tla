------------------------------ MODULE MC_Edge ------------------------------
(* C05 / C10 / C06: every netlist of N leaves drawn from sequential and      *)
(* combinational shapes (register chains, feedback rings, cross-coupled      *)
(* pairs, a memory), one or two clock domains (the second gated by any       *)
(* wire), all input histories up to MaxCycles edges, all splittings into     *)
(* clk(n) calls, ALL visit orders of drivers and clockables at every edge.   *)
(* Each settled state is printed with its schedule for replay on the code.   *)
EXTENDS Kernel, Json

CONSTANTS N, P, WD,       \* leaves, primary inputs, data width (1 or 2)
          Shapes,         \* subset of {"Reg","RegE","RegR","RegER","Mem","Not","And2","Mux2","Seq"}
          ResetVals,      \* reset values tried for registers
          Gated,          \* TRUE: sequential leaves may sit in a second, gated domain
          InVecs,         \* set of input vectors (sequences of length P)
          MaxCycles, MaxN, \* bound on edges per behaviour, max n of clk(n)
          Emit, EmitMod   \* print every settled transition with probability 1/EmitMod

VARIABLES hist,    \* sequence of <<"poke", vec>> / <<"clk", n>> so far (hidden by the VIEW)
          vorder   \* visit order of the current edge: sequence of <<"D", d>> / <<"L", b>>
mvars == <<kvars, hist, vorder>>
View == <<kvars, vorder>>

IsSeqShape(sh) == sh \in {"Reg", "RegE", "RegR", "RegER", "Mem", "Seq"}
KindOf(sh) == CASE sh \in {"Reg", "RegE", "RegR", "RegER"} -> "Reg"
                [] sh = "Mem" -> "SynchronousMemory" [] sh = "Seq" -> "Sequence" [] OTHER -> sh
NIn(sh) == CASE sh = "Reg" -> 1 [] sh \in {"RegE", "RegR"} -> 2 [] sh = "RegER" -> 3 [] sh = "Mem" -> 4
             [] sh = "Not" -> 1 [] sh = "And2" -> 2 [] sh = "Mux2" -> 3 [] sh = "Seq" -> 0

Param(sh, rv) == CASE sh = "Reg" -> <<0, 0, rv>> [] sh = "RegE" -> <<1, 0, rv>> [] sh = "RegR" -> <<0, 1, rv>>
                   [] sh = "RegER" -> <<1, 1, rv>> [] sh = "Mem" -> <<1>> [] sh = "Seq" -> <<0, 1, 2, 0>>
                   [] OTHER -> <<>>

NW == P + N
\* input wirings of leaf b (leaves beyond N have none)
InsSet(shs, b) == IF b <= N THEN [1..NIn(shs[b]) -> 1..NW] ELSE {<<>>}
MkNet(shs, ins, rvs, dm, en) ==
    [width  |-> [w \in 1..NW |-> WD],
     leaves |-> [b \in 1..N |-> [kind |-> KindOf(shs[b]), ins |-> ins[b], outs |-> <<P + b>>,
                                 p |-> Param(shs[b], rvs[b]), dom |-> IF IsSeqShape(shs[b]) THEN dm[b] ELSE 0]],
     doms   |-> IF Gated THEN <<[en |-> 0], [en |-> en]>> ELSE <<[en |-> 0]>>]

Init ==
    \E shs \in [1..N -> Shapes] :
    \E i1 \in InsSet(shs, 1) : \E i2 \in InsSet(shs, 2) : \E i3 \in InsSet(shs, 3) : \E i4 \in InsSet(shs, 4) :
    LET ins == <<i1, i2, i3, i4>> IN
    \E rvs \in [1..N -> ResetVals] :
    \E dm \in [1..N -> IF Gated THEN {1, 2} ELSE {1}] :
    \E en \in IF Gated THEN 0..NW ELSE {0} :
        /\ \A b \in 1..N : ~IsSeqShape(shs[b]) => rvs[b] = 0 /\ dm[b] = 1
        /\ \A b \in 1..N : shs[b] \in {"Mem", "Seq"} => rvs[b] = 0
        /\ \E b \in 1..N : IsSeqShape(shs[b])
        /\ Gated => \E b \in 1..N : dm[b] = 2
        /\ KInit(MkNet(shs, ins, rvs, dm, en), [w \in 1..NW |-> 0])
        /\ hist = <<>> /\ vorder = <<>>

PokeVec(vec) ==
    /\ pc = "idle" /\ passes > 0 /\ cycles < MaxCycles
    /\ ~dirty
    /\ val' = [w \in Wires |-> IF w <= P THEN Put(vec[w], net.width[w]) ELSE val[w]]
    /\ dirty' = TRUE
    /\ hist' = Append(hist, <<"poke", vec>>)
    /\ UNCHANGED <<net, nxt, prepared, st, order, pc, passes, pendD, pendL, cycles, budget, pre, skipped, taint, vorder>>

Report ==
    IF Emit /\ RandomElement(1..EmitMod) = 1 THEN PrintT(ToJson(<<"S", [k \in 1..N |-> L(k).kind], [k \in 1..N |-> L(k).ins], [k \in 1..N |-> L(k).p],
                                  [k \in 1..N |-> L(k).dom], net.doms, hist, vorder>>))
    ELSE TRUE

Next ==
    \/ (GetSimulator /\ UNCHANGED <<hist, vorder>>)
    \/ (SortPass /\ UNCHANGED <<hist, vorder>>)
    \/ \E vec \in InVecs : PokeVec(vec)
    \/ \E n \in 1..MaxN : /\ dirty /\ cycles + n <= MaxCycles
                         /\ ClkCall(n) /\ hist' = Append(hist, <<"clk", n>>) /\ vorder' = <<>>
    \/ \E d \in Doms : PickDomain(d) /\ vorder' = Append(vorder, <<"D", d>>) /\ UNCHANGED hist
    \/ \E b \in Leaves : ClockLeaf(b) /\ vorder' = Append(vorder, <<"L", b>>) /\ UNCHANGED hist
    \/ (Settle /\ Report /\ UNCHANGED <<hist, vorder>>)
    \/ (Advance /\ vorder' = <<>> /\ UNCHANGED hist)

Spec == Init /\ [][Next]_mvars

\* n cycles in one call = n single calls: propagateAll() is idempotent at a fixpoint
IdleStable == pc = "idle" /\ ~dirty /\ passes > 0 /\ ~taint => PropAll(val, order) = val
=============================================================================
