------------------------------ MODULE MC_Build ------------------------------
(* C11: all construction sequences within the bounds of Build.tla.  `hist`   *)
(* is hidden by the VIEW, so TLC expands every distinct construction state   *)
(* once and prints every one of its outgoing calls with a call sequence that *)
(* reaches it: one implementation test per transition of the state graph.    *)
EXTENDS Build, Json

CONSTANTS Emit, EmitMod
VARIABLE hist
mvars == <<bvars, hist>>
View == bvars

Init == BInit /\ hist = <<>>

\* integrity of the whole hierarchy in the successor state
RECURSIVE BadBelowN(_, _, _, _)
BadBelowN(os, ws, b, depth) ==
    \/ \E w \in SeqRange(os[b].ins) \cup SeqRange(os[b].outs) : ws[w].source = 0
    \/ depth > 0 /\ \E c \in SeqRange(os[b].kids) : BadBelowN(os, ws, c, depth - 1)
BadBelowNext == BadBelowN(objs', wires', 1, MaxObjs)

Report(call) ==
    /\ hist' = Append(hist, call)
    /\ IF Emit /\ RandomElement(1..EmitMod) = 1
       THEN PrintT(ToJson(<<"B", Append(hist, call), err', objs', wires', reg', BadBelowNext>>))
       ELSE TRUE

Next ==
    /\ calls < MaxCalls
    /\ \/ \E p \in Objs, n \in Names : ~objs[p].prim /\ NewWire(p, n) /\ Report(<<"NewWire", p, n>>)
       \/ \E p \in Objs, n \in Names, pr \in BOOLEAN : NewChild(p, n, pr) /\ Report(<<"NewChild", p, n, pr>>)
       \/ \E b \in Objs, w \in WireIds : AddIn(b, w) /\ Report(<<"AddIn", b, w>>)
       \/ \E b \in Objs, w \in WireIds : AddOut(b, w) /\ Report(<<"AddOut", b, w>>)
       \/ \E b \in Objs, w \in WireIds : AddInOut(b, w) /\ Report(<<"AddInOut", b, w>>)
       \/ \E w \in WireIds, n \in Names : Rename(w, n) /\ Report(<<"Rename", w, n>>)
       \/ \E w \in WireIds, p \in Objs : Reparent(w, p) /\ Report(<<"Reparent", w, p>>)
       \/ \E w \in WireIds, p \in Objs, n \in Names : ReparentAndRename(w, p, n) /\ Report(<<"ReparentAndRename", w, p, n>>)
       \/ \E b \in Objs : CheckIntegrity(b) /\ Report(<<"CheckIntegrity", b>>)

Spec == Init /\ [][Next]_mvars
=============================================================================
