------------------------------- MODULE FloatFmt -------------------------------
(* IEEE-754 binary interchange formats, parametric in exponent width EW and    *)
(* mantissa width MW, over exact dyadic rationals (C12, C13).                  *)
(*                                                                            *)
(* A dyadic is [s |-> 1 | -1, m |-> limb vector (odd, or zero), e |-> Int]:     *)
(* the rational  s * m * 2^e.  Limb vectors are WB bits wide (module Limb), so  *)
(* 53-bit mantissas, their 106-bit products and sums across exponent gaps of    *)
(* 100 bits are exact.  Special values are [sp |-> "inf" | "nan", s |-> sign].  *)
EXTENDS Limb

WB == 330

Z == Zero(WB)
LimbsOf(l) == Norm(l, WB)

\* number of trailing zero bits / bit length of a non-zero vector
RECURSIVE LowLimb(_, _), HighLimb(_, _)
LowLimb(l, k) == IF l[k] # 0 THEN k ELSE LowLimb(l, k + 1)
HighLimb(l, k) == IF l[k] # 0 THEN k ELSE HighLimb(l, k - 1)
RECURSIVE Tz(_)
Tz(x) == IF x % 2 = 1 THEN 0 ELSE 1 + Tz(x \div 2)
TrailingZeros(l) == LET k == LowLimb(l, 1) IN LB * (k - 1) + Tz(l[k])
BitLength(l) == IF IsZero(l) THEN 0 ELSE LET k == HighLimb(l, Len(l)) IN LB * (k - 1) + BitLen(l[k])

\* canonical dyadic: mantissa odd (or zero with exponent 0)
MkD(s, m, e) == IF IsZero(m) THEN [s |-> s, m |-> Z, e |-> 0]
                ELSE LET t == TrailingZeros(m) IN [s |-> s, m |-> Shr2(m, t, WB), e |-> e + t]
DZero(d) == IsZero(d.m)
SameValue(x, y) == (DZero(x) /\ DZero(y)) \/ (x.s = y.s /\ x.m = y.m /\ x.e = y.e)
SameWithZeroSign(x, y) == x.s = y.s /\ x.m = y.m /\ x.e = y.e

IsSpecial(v) == "sp" \in DOMAIN v

\* ------------------------------------------------------------------ formats
Bias(ew) == Pow2(ew - 1) - 1
EMax(ew) == Pow2(ew) - 1

\* value of the pattern (sign bit sb, exponent field ef, mantissa field mf as limb vector)
Decode(ew, mw, sb, ef, mf) ==
    LET sg == IF sb = 0 THEN 1 ELSE -1
        f == LimbsOf(mf)
    IN  IF ef = EMax(ew) THEN [sp |-> IF IsZero(f) THEN "inf" ELSE "nan", s |-> sg]
        ELSE IF ef = 0 THEN MkD(sg, f, 1 - Bias(ew) - mw)
        ELSE MkD(sg, Add(f, Shl2(FromInt(1, WB), mw, WB), WB), ef - Bias(ew) - mw)

\* pattern <<sb, ef, mf>> of a dyadic that the format represents exactly; <<-1, 0, Z>> when it does not
Encode(ew, mw, d) ==
    LET sb == IF d.s = 1 THEN 0 ELSE 1 IN
    IF DZero(d) THEN <<sb, 0, Z>>
    ELSE LET len == BitLength(d.m)
             top == d.e + len - 1                          \* exponent of the leading bit
         IN  IF top >= 1 - Bias(ew)
             THEN \* normal
                  IF top > Bias(ew) \/ len - 1 > mw THEN <<-1, 0, Z>>
                  ELSE <<sb, top + Bias(ew), Sub(Shl2(d.m, mw - (len - 1), WB), Shl2(FromInt(1, WB), mw, WB), WB)>>
             ELSE \* subnormal: value = mf * 2^(1 - bias - mw)
                  LET sh == d.e - (1 - Bias(ew) - mw) IN
                  IF sh < 0 THEN <<-1, 0, Z>> ELSE <<sb, 0, Shl2(d.m, sh, WB)>>

\* --------------------------------------------------------- exact arithmetic
MagCmp(x, y) ==     \* compares |x| and |y| (both non-zero or zero)
    IF DZero(x) /\ DZero(y) THEN 0 ELSE IF DZero(x) THEN -1 ELSE IF DZero(y) THEN 1
    ELSE LET tx == x.e + BitLength(x.m)
             ty == y.e + BitLength(y.m)
             e == Min(x.e, y.e)
         IN  \* different leading-bit positions decide without aligning (exponent gaps may exceed the vector width)
             IF tx # ty THEN (IF tx > ty THEN 1 ELSE -1)
             ELSE CmpU(Shl2(x.m, x.e - e, WB), Shl2(y.m, y.e - e, WB))

DCmp(x, y) ==
    IF DZero(x) /\ DZero(y) THEN 0
    ELSE IF DZero(x) THEN (IF y.s = 1 THEN -1 ELSE 1)
    ELSE IF DZero(y) THEN (IF x.s = 1 THEN 1 ELSE -1)
    ELSE IF x.s # y.s THEN (IF x.s = 1 THEN 1 ELSE -1)
    ELSE IF x.s = 1 THEN MagCmp(x, y) ELSE 0 - MagCmp(x, y)

DNeg(x) == [x EXCEPT !.s = 0 - x.s]

DAdd(x, y) ==
    IF DZero(x) THEN y ELSE IF DZero(y) THEN x
    ELSE LET e == Min(x.e, y.e)
             a == Shl2(x.m, x.e - e, WB)
             b == Shl2(y.m, y.e - e, WB)
         IN  IF x.s = y.s THEN MkD(x.s, Add(a, b, WB), e)
             ELSE IF CmpU(a, b) >= 0 THEN MkD(x.s, Sub(a, b, WB), e) ELSE MkD(y.s, Sub(b, a, WB), e)
DSub(x, y) == DAdd(x, DNeg(y))
DMul(x, y) == IF DZero(x) \/ DZero(y) THEN MkD(x.s * y.s, Z, 0) ELSE MkD(x.s * y.s, Mul(x.m, y.m, WB), x.e + y.e)

\* dyadic given as JSON [s, m (limbs), e]
FromJ(j) == IF "sp" \in DOMAIN j THEN j ELSE MkD(j.s, LimbsOf(j.m), j.e)

\* ------------------------------------------------ spec self-checks (small formats, exhaustive)
FormatSanity(ew, mw) ==
    \A sb \in {0, 1}, ef \in 0..(EMax(ew) - 1), mfi \in 0..(Pow2(mw) - 1) :
        LET d == Decode(ew, mw, sb, ef, FromInt(mfi, WB)) IN
        /\ Encode(ew, mw, d) = <<sb, ef, FromInt(mfi, WB)>>
        \* monotone in the mantissa field and across exponent boundaries (positive half)
        /\ (sb = 0 /\ mfi + 1 < Pow2(mw)) => DCmp(d, Decode(ew, mw, 0, ef, FromInt(mfi + 1, WB))) = -1
        /\ (sb = 0 /\ ef + 1 < EMax(ew)) => DCmp(d, Decode(ew, mw, 0, ef + 1, Z)) = -1
        /\ SameValue(DAdd(d, DNeg(d)), MkD(1, Z, 0))
        /\ SameValue(DMul(d, MkD(1, FromInt(1, WB), 1)), DAdd(d, d))
=============================================================================
