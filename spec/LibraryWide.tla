----------------------------- MODULE LibraryWide -----------------------------
(* The references of Library.tla again, on limb vectors (module Limb), for    *)
(* port widths beyond TLC's 32-bit integers: 32, 33, 48, 64 ... bit operands. *)
(* Same conventions as Library!CombRef: WideRef(kind, c, iv, iw, ow) is the   *)
(* sequence of expected outputs (limb vectors normalised to the output        *)
(* widths); WDC means "not constrained for this input".                       *)
(* Trace_Comb evaluates BOTH references on every row of every small-width     *)
(* table (exhaustive at widths 1..4) and reports any disagreement between     *)
(* them as a machinery failure, so this module is tied to Library.tla.        *)
EXTENDS Limb, FiniteSets

WDC == <<-1>>

WideKinds == {"Add", "AddCarryIn", "Sub", "SubBorrowIn", "Neg", "Abs", "Sign", "SignExtend", "ZeroExtend", "Mul", "SignedMul", "Div", "Mod",
              "SignedAdd", "SignedSub", "SignedDiv", "ShiftLeftConstant", "ShiftRightConstant", "ShiftLeft", "ShiftRight",
              "RotateLeftConstant", "RotateRightConstant", "CountLeadingZeros",
              "And2", "Or2", "Xor2", "Nand2", "Nor2", "Not", "Buf", "And", "Or", "Xor", "Nor", "AndBits", "OrBits",
              "Bit", "Range", "BitsLSBF", "BitsMSBF", "ConcatenateMSBF", "ConcatenateLSBF", "Repeat", "BufEnable",
              "Mux2", "Mux", "Swap", "Equal", "EqualConstant", "NotEqualConstant", "Comparator", "ComparatorSignedUnsigned",
              "Max2", "Min2", "SignedMax2", "SignedMin2", "FixedPointAdd", "FixedPointSub", "FixedPointSign",
              "FixedPointMult", "FixedPointComparator"}

RECURSIVE MaxSeq(_)
MaxSeq(s) == IF s = <<>> THEN 0 ELSE Max(Head(s), MaxSeq(Tail(s)))

RECURSIVE HighLimbW(_, _)
HighLimbW(l, k) == IF k = 0 THEN 0 ELSE IF l[k] # 0 THEN k ELSE HighLimbW(l, k - 1)
BitLenV(l) == LET k == HighLimbW(l, Len(l)) IN IF k = 0 THEN 0 ELSE LB * (k - 1) + BitLen(l[k])

Bv(b, w) == FromInt(IF b THEN 1 ELSE 0, w)
RotlV(a, n, w) == OrV(Shl2(a, n, w), Shr2(a, w - n, w), w)

RECURSIVE FoldV(_, _, _, _)
FoldV(op(_, _, _), s, k, w) == IF k = Len(s) THEN Norm(s[k], w) ELSE op(Norm(s[k], w), FoldV(op, s, k + 1, w), w)

RevS(s) == [k \in 1..Len(s) |-> s[Len(s) + 1 - k]]
Parts(iv, iw) == [k \in 1..Len(iv) |-> [l |-> Norm(iv[k], iw[k]), w |-> iw[k]]]

\* WW: a working width with room for carries above every port
WideRefW(kind, c, iv, iw, ow, WW) ==
  LET U(k) == Norm(iv[k], WW)                                         \* zero-extended operand
      S(k) == Ext(Norm(iv[k], iw[k]), iw[k], WW, TRUE)                \* sign-extended operand
      O(x) == Norm(x, ow[1])
      Amt(k) == Capped(iv[k], WW + 1)                                 \* shift amount, saturated
  IN
  CASE kind \in {"Add", "AddCarryIn", "FixedPointAdd"} ->
          LET ci == IF kind = "AddCarryIn" \/ (kind = "Add" /\ c.ci = 1) THEN U(3) ELSE Zero(WW)
              s == Add(Add(U(1), U(2), WW), ci, WW)
          IN  IF kind = "Add" /\ c.co = 1 THEN <<O(s), FromInt(BitOf(s, ow[1]), ow[2])>> ELSE <<O(s)>>
    [] kind \in {"Sub", "FixedPointSub"} -> <<O(Sub(U(1), U(2), WW))>>
    [] kind = "SubBorrowIn" -> <<O(Sub(Sub(U(1), U(2), WW), U(3), WW))>>
    [] kind = "Neg" -> <<O(Neg(U(1), WW))>>
    [] kind = "Abs" -> IF c.inv = 1 THEN <<O(AbsV(S(1), WW)), FromInt(MsbOf(iv[1], iw[1]), ow[2])>> ELSE <<O(AbsV(S(1), WW))>>
    [] kind \in {"Sign", "FixedPointSign"} -> <<FromInt(MsbOf(iv[1], iw[1]), ow[1])>>
    [] kind = "SignExtend" -> <<O(S(1))>>
    [] kind \in {"ZeroExtend", "Buf"} -> <<O(U(1))>>
    [] kind = "Mul" -> <<Mul(Norm(iv[1], ow[1]), Norm(iv[2], ow[1]), ow[1])>>
    [] kind = "SignedMul" -> <<Mul(O(S(1)), O(S(2)), ow[1])>>
    [] kind = "Div" -> <<IF IsZero(U(2)) THEN WDC ELSE O(DivU(U(1), U(2), WW).q)>>
    [] kind = "Mod" -> <<IF IsZero(U(2)) THEN WDC ELSE O(DivU(U(1), U(2), WW).r)>>
    [] kind = "SignedAdd" ->
          LET ci == IF c.ci = 1 THEN U(3) ELSE Zero(WW)
              s == Add(Add(S(1), S(2), WW), ci, WW)
              u == Add(Add(Norm(O(S(1)), WW), Norm(O(S(2)), WW), WW), ci, WW)
          IN  IF c.co = 1 THEN <<O(s), FromInt(BitOf(u, ow[1]), ow[2])>> ELSE <<O(s)>>
    [] kind = "SignedSub" -> <<O(Sub(S(1), S(2), WW))>>
    [] kind = "SignedDiv" -> <<IF IsZero(U(2)) THEN WDC ELSE O(DivS(S(1), S(2), WW))>>
    [] kind = "ShiftLeftConstant" -> <<Shl2(O(U(1)), c.n, ow[1])>>
    [] kind = "ShiftRightConstant" -> <<O(Shr2(U(1), c.n, WW))>>
    [] kind = "ShiftLeft" -> <<Shl2(O(U(1)), Amt(2), ow[1])>>
    [] kind = "ShiftRight" ->
          LET arith == IF c.arith = 2 THEN BitOf(iv[3], 0) = 1 ELSE c.arith = 1
          IN  <<IF arith THEN O(Sar2(S(1), Amt(2), WW)) ELSE O(Shr2(U(1), Amt(2), WW))>>
    [] kind = "RotateLeftConstant" -> <<RotlV(Norm(iv[1], iw[1]), c.n, iw[1])>>
    [] kind = "RotateRightConstant" -> <<RotlV(Norm(iv[1], iw[1]), iw[1] - c.n, iw[1])>>
    [] kind = "CountLeadingZeros" ->
          IF IsZero(U(1)) THEN <<FromInt(iw[1], ow[1]), FromInt(1, ow[2])>>
          ELSE <<FromInt(iw[1] - BitLenV(Norm(iv[1], iw[1])), ow[1]), FromInt(0, ow[2])>>
    [] kind = "And2" -> <<O(AndV(U(1), U(2), WW))>>
    [] kind = "Or2" -> <<O(OrV(U(1), U(2), WW))>>
    [] kind = "Xor2" -> <<O(XorV(U(1), U(2), WW))>>
    [] kind = "Nand2" -> <<NotV(O(AndV(Norm(iv[1], iw[1]), Norm(iv[2], iw[1]), iw[1])), ow[1])>>
    [] kind = "Nor2" -> <<NotV(O(OrV(Norm(iv[1], iw[1]), Norm(iv[2], iw[1]), iw[1])), ow[1])>>
    [] kind = "Not" -> <<NotV(O(U(1)), ow[1])>>
    [] kind = "And" -> <<FoldV(AndV, iv, 1, ow[1])>>
    [] kind = "Or" -> <<FoldV(OrV, iv, 1, ow[1])>>
    [] kind = "Xor" -> <<FoldV(XorV, iv, 1, ow[1])>>
    [] kind = "Nor" -> <<NotV(FoldV(OrV, iv, 1, ow[1]), ow[1])>>
    [] kind = "AndBits" -> <<Bv(Norm(iv[1], iw[1]) = Ones(iw[1]), ow[1])>>
    [] kind = "OrBits" -> <<Bv(~IsZero(U(1)), ow[1])>>
    [] kind = "Bit" -> <<FromInt(BitOf(iv[1], c.k), ow[1])>>
    [] kind = "Range" -> <<O(Slice2(Norm(iv[1], iw[1]), c.l, c.h - c.l + 1))>>
    [] kind = "BitsLSBF" -> [j \in 1..Len(ow) |-> FromInt(BitOf(iv[1], j - 1), ow[j])]
    [] kind = "BitsMSBF" -> [j \in 1..Len(ow) |-> FromInt(BitOf(iv[1], Len(ow) - j), ow[j])]
    [] kind = "ConcatenateMSBF" -> <<O(Cat(Parts(iv, iw)).l)>>
    [] kind = "ConcatenateLSBF" -> <<O(Cat(Parts(RevS(iv), RevS(iw))).l)>>
    [] kind = "Repeat" -> <<IF ~IsZero(U(1)) THEN Ones(ow[1]) ELSE Zero(ow[1])>>
    [] kind = "BufEnable" -> <<IF ~IsZero(U(2)) THEN O(U(1)) ELSE Zero(ow[1])>>
    [] kind = "Mux2" -> <<O(IF BitOf(iv[1], 0) = 1 THEN U(3) ELSE U(2))>>
    [] kind = "Mux" -> <<O(U(ToInt(Norm(iv[1], 20)) + 2))>>
    [] kind = "Swap" -> IF BitOf(iv[3], 0) = 1 THEN <<Norm(iv[2], ow[1]), Norm(iv[1], ow[2])>> ELSE <<Norm(iv[1], ow[1]), Norm(iv[2], ow[2])>>
    [] kind = "Equal" -> <<Bv(CmpU(U(1), U(2)) = 0, ow[1])>>
    [] kind = "EqualConstant" -> <<Bv(CmpU(U(1), FromInt(c.v, WW)) = 0, ow[1])>>
    [] kind = "NotEqualConstant" -> <<Bv(CmpU(U(1), FromInt(c.v, WW)) # 0, ow[1])>>
    [] kind = "Comparator" ->
          LET d == CmpU(U(1), U(2)) IN <<Bv(d = 1, ow[1]), Bv(d = 0, ow[2]), Bv(d = -1, ow[3])>>
    [] kind = "ComparatorSignedUnsigned" ->
          LET d == CmpU(U(1), U(2))
              e == CmpS(S(1), S(2), WW)
          IN  <<Bv(d = 1, ow[1]), Bv(d = 0, ow[2]), Bv(d = -1, ow[3]), Bv(e = 1, ow[4]), Bv(e = -1, ow[5])>>
    [] kind = "Max2" -> <<O(IF CmpU(U(1), U(2)) >= 0 THEN U(1) ELSE U(2))>>
    [] kind = "Min2" -> <<O(IF CmpU(U(1), U(2)) <= 0 THEN U(1) ELSE U(2))>>
    [] kind = "SignedMax2" -> <<O(IF CmpS(S(1), S(2), WW) >= 0 THEN S(1) ELSE S(2))>>
    [] kind = "SignedMin2" -> <<O(IF CmpS(S(1), S(2), WW) <= 0 THEN S(1) ELSE S(2))>>
    [] kind = "FixedPointMult" ->
          \* exact product of the signed values (width of both operands together), floor-rescaled to the result format
          LET sh == c.af[3] + c.bf[3] - c.rf[3]
              PW == Max(iw[1] + iw[2] + 2, ow[1] + sh + 1)        \* wide enough for the sign to reach every result bit
              p == Mul(Ext(Norm(iv[1], iw[1]), iw[1], PW, TRUE), Ext(Norm(iv[2], iw[2]), iw[2], PW, TRUE), PW)
          IN  <<O(Sar2(p, sh, PW))>>
    [] kind = "FixedPointComparator" ->
          \* constrained only when the difference is representable in the operand format (Library!CombRef)
          LET d == Sub(S(1), S(2), WW)
              rep == Ext(Norm(d, iw[1]), iw[1], WW, TRUE) = d
              e == CmpS(S(1), S(2), WW)
          IN  IF rep THEN <<Bv(e = 1, ow[1]), Bv(e = 0, ow[2]), Bv(e = -1, ow[3])>> ELSE <<WDC, WDC, WDC>>

WideRef(kind, c, iv, iw, ow) == WideRefW(kind, c, iv, iw, ow, MaxSeq(iw \o ow) + 2)

WideRefA(kind, c, iv, iw, ow) ==
    IF "alias" \in DOMAIN c
    THEN WideRef(kind, c, [k \in 1..Len(c.alias) |-> iv[c.alias[k]]], [k \in 1..Len(c.alias) |-> iw[c.alias[k]]], ow)
    ELSE WideRef(kind, c, iv, iw, ow)

\* the integer reference r (Library!CombRef, DC = -1) as limb vectors, for the comparison of the two references
AsWide(r, ow) == [k \in 1..Len(r) |-> IF r[k] = -1 THEN WDC ELSE FromInt(r[k], ow[k])]
WideOfInts(kind, c, iv, iw, ow) == WideRefA(kind, c, [k \in 1..Len(iv) |-> FromInt(iv[k], iw[k])], iw, ow)
=============================================================================
