------------------------------ MODULE Trace_Layout ------------------------------
(* C18, binding V: (netlist, layout) pairs recorded from Schematic(obj,          *)
(* placeAndRoute=True) judged by the result relation of Layout.tla.              *)
EXTENDS Layout, Json, IOUtils
VARIABLES tid, done
Cases == JsonDeserialize(IOEnv.TRACE_FILE)
Init == tid \in 1..Len(Cases) /\ done = FALSE
Next == /\ ~done /\ done' = TRUE /\ tid' = tid
        /\ PrintT(ToJson(<<"L", tid, Findings(Cases[tid].N, Cases[tid].L)>>))
=============================================================================
