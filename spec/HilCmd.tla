------------------------------- MODULE HilCmd -------------------------------
(* The hardware-in-the-loop UART command codec (py4hw.emulation.HILWrapperUART)*)
(*                                                                            *)
(* Property layer: the command semantics.  A stream of well-formed commands   *)
(*     I<hex n>=   select input n          <hex v>!  store v                   *)
(*     O<hex n>?   select output n, then start a response                      *)
(*     K<hex n>;   n clock pulses                                              *)
(* denotes a sequence of actions (Parse); the response to (value, size) is     *)
(* the text '=' , size upper-case hex digits MSB first, '!' (Response).        *)
(*                                                                            *)
(* Implementation-shaped layer: CMDRequest (states 0..10, temp, new_c) and     *)
(* CMDResponse (states 0..6, temp, temp_size, aux) as their clock() methods.   *)
EXTENDS Naturals, Integers, Sequences, TLC

ChI == 73  ChO == 79  ChK == 75  ChEq == 61  ChBang == 33  ChQ == 63  ChSemi == 59
IsDigit(c) == c >= 48 /\ c <= 57
IsAF(c) == c >= 65 /\ c <= 70
HexVal(c) == IF IsDigit(c) THEN c - 48 ELSE c - 55
HexChar(d) == IF d <= 9 THEN 48 + d ELSE 55 + d

\* ------------------------------------------------------------ property layer
\* actions: <<"SelIn", n>>, <<"Store", v>>, <<"SelOut", n>>, <<"StartResp", n>>, <<"Pulse">>
RECURSIVE Pulses(_)
Pulses(n) == IF n = 0 THEN <<>> ELSE <<<<"Pulse">>>> \o Pulses(n - 1)

RECURSIVE ParseFrom(_, _, _)
ParseFrom(s, k, acc) ==
    IF k > Len(s) THEN <<>>
    ELSE LET c == s[k] IN
         IF c \in {ChI, ChO, ChK} THEN ParseFrom(s, k + 1, 0)
         ELSE IF IsDigit(c) \/ IsAF(c) THEN ParseFrom(s, k + 1, acc * 16 + HexVal(c))
         ELSE IF c = ChEq THEN <<<<"SelIn", acc>>>> \o ParseFrom(s, k + 1, 0)
         ELSE IF c = ChBang THEN <<<<"Store", acc>>>> \o ParseFrom(s, k + 1, 0)
         ELSE IF c = ChQ THEN <<<<"SelOut", acc>>, <<"StartResp", acc>>>> \o ParseFrom(s, k + 1, 0)
         ELSE IF c = ChSemi THEN Pulses(acc) \o ParseFrom(s, k + 1, 0)
         ELSE ParseFrom(s, k + 1, 0)
Parse(s) == ParseFrom(s, 1, 0)

RECURSIVE Pow16(_)
Pow16(n) == IF n = 0 THEN 1 ELSE 16 * Pow16(n - 1)
\* nibble k (0 = least significant) of a value below 2^28 (TLC integers): positions 7 and above are leading zeros
NibOf(v, k) == IF k >= 7 THEN 0 ELSE (v \div Pow16(k)) % 16
Digits(v, size) == [k \in 1..size |-> HexChar(NibOf(v, size - k))]
Response(v, size) == <<ChEq>> \o Digits(v, size) \o <<ChBang>>

\* actions visible in a per-cycle record of the decoder outputs (rising edges carry the numbers)
\* o = [si, ii, sv, vi, so, io, sr, cp]: set_index_in, index_in, set_v_in, v_in, set_index_out, index_out, start_resp, clk_pulse
EventsAt(p, o) ==
    (IF o.si = 1 /\ p.si = 0 THEN <<<<"SelIn", o.ii>>>> ELSE <<>>) \o
    (IF o.sv = 1 /\ p.sv = 0 THEN <<<<"Store", o.vi>>>> ELSE <<>>) \o
    (IF o.so = 1 /\ p.so = 0 THEN <<<<"SelOut", o.io>>>> ELSE <<>>) \o
    (IF o.sr = 1 /\ p.sr = 0 THEN <<<<"StartResp", o.io>>>> ELSE <<>>) \o
    (IF o.cp = 1 /\ p.cp = 0 THEN <<<<"Pulse">>>> ELSE <<>>)

IsPrefix(a, b) == Len(a) <= Len(b) /\ SubSeq(b, 1, Len(a)) = a

\* ---------------------------------------------------- CMDRequest (as the code)
ReqOut0 == [ready |-> 0, si |-> 0, ii |-> 0, sv |-> 0, vi |-> 0, so |-> 0, io |-> 0, sr |-> 0, cp |-> 0]
ReqInit == [state |-> 0, temp |-> 0, newc |-> 0, o |-> ReqOut0]

\* one clock edge; valid, c = inputs seen before the edge
ReqNext(r, valid, c) ==
    LET st == r.state
        o == r.o
    IN
    CASE st = 0 -> [r EXCEPT !.state = 1, !.o = [o EXCEPT !.ready = 1, !.si = 0, !.sv = 0, !.so = 0]]
      [] st = 1 -> IF valid # 0 THEN [r EXCEPT !.state = 2, !.newc = c, !.o = [o EXCEPT !.ready = 0]]
                   ELSE [r EXCEPT !.o = [o EXCEPT !.ready = 1]]
      [] st = 2 -> LET ch == r.newc IN
                   IF ch \in {ChI, ChO, ChK} THEN [r EXCEPT !.state = 0, !.temp = 0]
                   ELSE IF ch = ChEq THEN [r EXCEPT !.state = 3]
                   ELSE IF ch = ChBang THEN [r EXCEPT !.state = 5]
                   ELSE IF ch = ChQ THEN [r EXCEPT !.state = 6]
                   ELSE IF ch = ChSemi THEN [r EXCEPT !.state = 8]
                   ELSE IF IsDigit(ch) \/ IsAF(ch) THEN [r EXCEPT !.state = 0, !.temp = r.temp * 16 + HexVal(ch)]
                   ELSE [r EXCEPT !.state = 4]
      [] st = 3 -> [r EXCEPT !.state = 4, !.o = [o EXCEPT !.ii = r.temp, !.si = 1]]
      [] st = 4 -> [r EXCEPT !.state = 0, !.temp = 0, !.o = [o EXCEPT !.sr = 0, !.si = 0, !.sv = 0, !.so = 0]]
      [] st = 5 -> [r EXCEPT !.state = 4, !.o = [o EXCEPT !.vi = r.temp, !.sv = 1]]
      [] st = 6 -> [r EXCEPT !.state = 10, !.o = [o EXCEPT !.io = r.temp, !.so = 1]]
      [] st = 10 -> [r EXCEPT !.state = 7, !.o = [o EXCEPT !.so = 0]]
      [] st = 7 -> [r EXCEPT !.state = 4, !.o = [o EXCEPT !.sr = 1]]
      [] st = 8 -> IF r.temp = 0 THEN [r EXCEPT !.state = 4, !.o = [o EXCEPT !.cp = 0]]
                   ELSE [r EXCEPT !.state = 9, !.temp = r.temp - 1, !.o = [o EXCEPT !.cp = 1]]
      [] st = 9 -> [r EXCEPT !.state = 8, !.o = [o EXCEPT !.cp = 0]]

\* --------------------------------------------------- CMDResponse (as the code)
RespInit == [state |-> 0, temp |-> 0, tsize |-> 0, aux |-> 0, valid |-> 0, v |-> 0]

Nib(x, k) == IF k >= 7 THEN 0 ELSE (x \div Pow16(k)) % 16

RespNext(r, start, vin, size, ready) ==
    LET st == r.state IN
    CASE st = 0 -> IF start # 0 THEN [r EXCEPT !.state = 1, !.temp = vin, !.tsize = size - 1] ELSE r
      [] st = 1 -> IF ready # 0 THEN [r EXCEPT !.state = 2, !.valid = 1, !.v = ChEq] ELSE r
      [] st = 2 -> IF ready = 0 THEN [r EXCEPT !.valid = 1]
                   ELSE [r EXCEPT !.valid = 0, !.state = 3, !.aux = Nib(r.temp, r.tsize)]
      [] st = 3 -> IF ready # 0 THEN [r EXCEPT !.state = 4, !.valid = 1, !.v = HexChar(r.aux)] ELSE r
      [] st = 4 -> IF ready = 0 THEN [r EXCEPT !.valid = 1]
                   ELSE IF r.tsize = 0 THEN [r EXCEPT !.valid = 0, !.state = 5]
                   ELSE [r EXCEPT !.valid = 0, !.state = 3, !.aux = Nib(r.temp, r.tsize - 1), !.tsize = r.tsize - 1]
      [] st = 5 -> [r EXCEPT !.valid = 1, !.v = ChBang, !.state = 6]
      [] st = 6 -> IF ready = 0 THEN [r EXCEPT !.valid = 1] ELSE [r EXCEPT !.valid = 0, !.state = 0]
=============================================================================
