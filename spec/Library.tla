------------------------------ MODULE Library ------------------------------
(* Reference semantics of the combinational library blocks, written from    *)
(* the documentation ("integer operation reduced modulo 2^(output width)",  *)
(* two's complement where signed, truth tables for the logic blocks), NOT   *)
(* from the netlists the constructors build.                                *)
(*                                                                          *)
(* CombRef(kind, c, iv, iw, ow) = sequence of expected output values, one   *)
(* per output port; the value DC (-1) means "not constrained for this       *)
(* input" (division by zero, select vectors that are not one-hot, rotation  *)
(* amounts above the data width).                                           *)
(*   c  : record of constructor parameters (see harness/library.py)         *)
(*   iv : input values, iw : input widths, ow : output widths               *)
EXTENDS Bits, FiniteSets

DC == -1

RECURSIVE FoldOp(_, _, _, _)
FoldOp(op(_, _, _), s, k, w) == IF k = Len(s) THEN s[k] ELSE op(s[k], FoldOp(op, s, k + 1, w), w)

RECURSIVE Concat(_, _, _)
\* value of inputs k..Len with input k most significant
Concat(iv, iw, k) == IF k > Len(iv) THEN 0
                     ELSE iv[k] * Pow2(SeqSum(SubSeq(iw, k + 1, Len(iw)))) + Concat(iv, iw, k + 1)
Rev(s) == [k \in 1..Len(s) |-> s[Len(s) + 1 - k]]

OneHotOrZero(sels) == Cardinality({k \in 1..Len(sels) : sels[k] # 0}) <= 1

RECURSIVE Pow10(_)
Pow10(k) == IF k = 0 THEN 1 ELSE 10 * Pow10(k - 1)
RECURSIVE Bcd(_, _, _)
Bcd(a, k, digits) == IF k = digits THEN 0 ELSE ((a \div Pow10(k)) % 10) * Pow2(4 * k) + Bcd(a, k + 1, digits)

\* 7-segment patterns (segment a = bit 0 ... g = bit 6) of the hexadecimal digits
SegOn == [seg \in 0..6 |->
            CASE seg = 0 -> {0, 2, 3, 5, 6, 7, 8, 9, 10, 12, 14, 15}
              [] seg = 1 -> {0, 1, 2, 3, 4, 7, 8, 9, 10, 13}
              [] seg = 2 -> {0, 1, 3, 4, 5, 6, 7, 8, 9, 10, 11, 13}
              [] seg = 3 -> {0, 2, 3, 5, 6, 8, 11, 12, 13, 14}
              [] seg = 4 -> {0, 2, 6, 8, 10, 11, 12, 13, 14, 15}
              [] seg = 5 -> {0, 4, 5, 6, 8, 9, 10, 11, 12, 14, 15}
              [] seg = 6 -> {2, 3, 4, 5, 6, 8, 9, 10, 11, 13, 14, 15}]
RECURSIVE SevenSeg(_, _)
SevenSeg(v, seg) == IF seg = 7 THEN 0 ELSE (IF v \in SegOn[seg] THEN Pow2(seg) ELSE 0) + SevenSeg(v, seg + 1)

B(x) == IF x THEN 1 ELSE 0

\* highest / lowest asserted index (1-based) or 0
Highest(s) == IF \E k \in 1..Len(s) : s[k] # 0 THEN CHOOSE k \in 1..Len(s) : s[k] # 0 /\ \A j \in (k + 1)..Len(s) : s[j] = 0 ELSE 0
Lowest(s)  == IF \E k \in 1..Len(s) : s[k] # 0 THEN CHOOSE k \in 1..Len(s) : s[k] # 0 /\ \A j \in 1..(k - 1) : s[j] = 0 ELSE 0

RECURSIVE SelDefault(_, _, _, _)
SelDefault(sels, ins, def, k) == IF k > Len(sels) THEN def
                                 ELSE IF sels[k] % 2 = 1 THEN ins[k] ELSE SelDefault(sels, ins, def, k + 1)

\* fixed point: value of the raw pattern x in format <<s, i, f>> as a signed integer (scaled by 2^f)
FxW(fmt) == fmt[1] + fmt[2] + fmt[3]
FxS(x, fmt) == ToSigned(x, FxW(fmt))

CombRef(kind, c, iv, iw, ow) ==
  CASE kind = "Add" ->
          LET ci == IF c.ci = 1 THEN iv[3] ELSE 0
              s == iv[1] + iv[2] + ci
          IN  IF c.co = 1 THEN <<s % Pow2(ow[1]), BitAt(s % Pow2(ow[1] + 1), ow[1])>> ELSE <<s % Pow2(ow[1])>>
    [] kind = "AddCarryIn" -> <<(iv[1] + iv[2] + iv[3]) % Pow2(ow[1])>>
    [] kind = "Sub" -> <<(iv[1] - iv[2]) % Pow2(ow[1])>>
    [] kind = "SubBorrowIn" -> <<(iv[1] - iv[2] - iv[3]) % Pow2(ow[1])>>
    [] kind = "Neg" -> <<(-iv[1]) % Pow2(ow[1])>>
    [] kind = "Abs" -> LET a == Abs(ToSigned(iv[1], iw[1])) % Pow2(ow[1])
                       IN  IF c.inv = 1 THEN <<a, Msb(iv[1], iw[1])>> ELSE <<a>>
    [] kind = "Sign" -> <<Msb(iv[1], iw[1])>>
    [] kind = "SignExtend" -> <<FromSigned(ToSigned(iv[1], iw[1]), ow[1])>>
    [] kind = "ZeroExtend" -> <<iv[1] % Pow2(ow[1])>>
    [] kind = "Mul" -> <<(iv[1] * iv[2]) % Pow2(ow[1])>>
    [] kind = "SignedMul" -> <<(ToSigned(iv[1], iw[1]) * ToSigned(iv[2], iw[2])) % Pow2(ow[1])>>
    [] kind = "Div" -> <<IF iv[2] = 0 THEN DC ELSE (iv[1] \div iv[2]) % Pow2(ow[1])>>
    [] kind = "Mod" -> <<IF iv[2] = 0 THEN DC ELSE (iv[1] % iv[2]) % Pow2(ow[1])>>
    [] kind = "SignedAdd" ->
          LET ci == IF c.ci = 1 THEN iv[3] ELSE 0
              s == ToSigned(iv[1], iw[1]) + ToSigned(iv[2], iw[2]) + ci
              u == SignExt(iv[1], iw[1], ow[1]) + SignExt(iv[2], iw[2], ow[1]) + ci
          IN  IF c.co = 1 THEN <<s % Pow2(ow[1]), BitAt(u, ow[1])>> ELSE <<s % Pow2(ow[1])>>
    [] kind = "SignedSub" -> <<(ToSigned(iv[1], iw[1]) - ToSigned(iv[2], iw[2])) % Pow2(ow[1])>>
    [] kind = "SignedDiv" ->
          LET sa == ToSigned(iv[1], iw[1])
              sb == ToSigned(iv[2], iw[2])
              q == Abs(sa) \div Abs(sb)
          IN  <<IF sb = 0 THEN DC ELSE (IF (sa < 0) # (sb < 0) THEN -q ELSE q) % Pow2(ow[1])>>
    [] kind = "ShiftLeftConstant" -> <<ShlMod(iv[1], c.n, ow[1])>>
    [] kind = "ShiftRightConstant" -> <<Shr(iv[1], c.n) % Pow2(ow[1])>>
    [] kind = "ShiftLeft" -> <<ShlMod(iv[1], iv[2], ow[1])>>
    [] kind = "ShiftRight" ->
          LET arith == IF c.arith = 2 THEN iv[3] % 2 = 1 ELSE c.arith = 1
          IN  <<IF arith THEN (ToSigned(iv[1], iw[1]) \div Pow2(iv[2])) % Pow2(ow[1])
                ELSE Shr(iv[1], iv[2]) % Pow2(ow[1])>>
    [] kind = "RotateLeftConstant" -> <<Rotl(iv[1], c.n, iw[1])>>
    [] kind = "RotateRightConstant" -> <<Rotr(iv[1], c.n, iw[1])>>
    [] kind = "RotateLeft" -> <<IF iv[2] > iw[1] THEN DC ELSE Rotl(iv[1], iv[2], iw[1])>>
    [] kind = "RotateRight" -> <<IF iv[2] > iw[1] THEN DC ELSE Rotr(iv[1], iv[2], iw[1])>>
    [] kind = "CountLeadingZeros" ->
          IF iv[1] = 0 THEN <<iw[1] % Pow2(ow[1]), 1>> ELSE <<Clz(iv[1], iw[1]) % Pow2(ow[1]), 0>>
    [] kind = "BinaryToBCD" -> <<Bcd(iv[1], 0, ow[1] \div 4)>>
    \* ------------------------------------------------------------ logic
    [] kind = "And2" -> <<BAnd(iv[1], iv[2], Max(iw[1], iw[2])) % Pow2(ow[1])>>
    [] kind = "Or2" -> <<BOr(iv[1], iv[2], Max(iw[1], iw[2])) % Pow2(ow[1])>>
    [] kind = "Xor2" -> <<BXor(iv[1], iv[2], Max(iw[1], iw[2])) % Pow2(ow[1])>>
    [] kind = "Nand2" -> <<BNot(BAnd(iv[1], iv[2], iw[1]), ow[1])>>
    [] kind = "Nor2" -> <<BNot(BOr(iv[1], iv[2], iw[1]), ow[1])>>
    [] kind = "Not" -> <<(-iv[1] - 1) % Pow2(ow[1])>>
    [] kind = "Buf" -> <<iv[1] % Pow2(ow[1])>>
    [] kind = "And" -> <<FoldOp(BAnd, iv, 1, ow[1])>>
    [] kind = "Or" -> <<FoldOp(BOr, iv, 1, ow[1])>>
    [] kind = "Xor" -> <<FoldOp(BXor, iv, 1, ow[1])>>
    [] kind = "Nor" -> <<BNot(FoldOp(BOr, iv, 1, ow[1]), ow[1])>>
    [] kind = "AndBits" -> <<B(iv[1] = Mask(iw[1]))>>
    [] kind = "OrBits" -> <<B(iv[1] # 0)>>
    [] kind = "Bit" -> <<BitAt(iv[1], c.k) % Pow2(ow[1])>>
    [] kind = "Range" -> <<Slice(iv[1], c.h, c.l) % Pow2(ow[1])>>
    [] kind = "BitsLSBF" -> [j \in 1..Len(ow) |-> BitAt(iv[1], j - 1)]
    [] kind = "BitsMSBF" -> [j \in 1..Len(ow) |-> BitAt(iv[1], Len(ow) - j)]
    [] kind = "ConcatenateMSBF" -> <<Concat(iv, iw, 1) % Pow2(ow[1])>>
    [] kind = "ConcatenateLSBF" -> <<Concat(Rev(iv), Rev(iw), 1) % Pow2(ow[1])>>
    [] kind = "Repeat" -> <<IF iv[1] # 0 THEN Mask(ow[1]) ELSE 0>>
    [] kind = "BufEnable" -> <<IF iv[2] # 0 THEN iv[1] ELSE 0>>
    [] kind = "Mux2" -> <<(IF iv[1] % 2 = 1 THEN iv[3] ELSE iv[2]) % Pow2(ow[1])>>
    [] kind = "Mux" -> <<iv[iv[1] + 2] % Pow2(ow[1])>>
    [] kind = "Demux" -> [j \in 1..Len(ow) |-> IF iv[2] = j - 1 THEN iv[1] ELSE 0]
    [] kind = "Decoder" -> [j \in 1..Len(ow) |-> B(iv[1] = j - 1)]
    [] kind \in {"Select", "OneHotMux"} ->
          \* ins = sel1, in1, sel2, in2, ...
          LET n == Len(iv) \div 2
              sels == [k \in 1..n |-> iv[2 * k - 1]]
          IN  <<IF ~OneHotOrZero(sels) THEN DC
                ELSE IF Highest(sels) = 0 THEN 0 ELSE iv[2 * Highest(sels)] % Pow2(ow[1])>>
    [] kind = "OneHotDemux" ->
          \* ins = a, sel1, sel2, ...
          [j \in 1..Len(ow) |-> IF iv[j + 1] # 0 THEN iv[1] % Pow2(ow[j]) ELSE 0]
    [] kind = "SelectDefault" ->
          \* ins = default, sel1, in1, sel2, in2, ...
          LET n == (Len(iv) - 1) \div 2
          IN  <<SelDefault([k \in 1..n |-> iv[2 * k]], [k \in 1..n |-> iv[2 * k + 1]], iv[1], 1) % Pow2(ow[1])>>
    [] kind = "PriorityEncoder" ->
          LET win == IF c.inc = 1 THEN Highest(iv) ELSE Lowest(iv)
          IN  [j \in 1..Len(ow) |-> B(j = win)]
    [] kind = "Minterm" -> <<B(\A k \in 1..Len(iv) : iv[k] = BitAt(c.v, k - 1))>>
    [] kind = "SumOfMinterms" -> <<B(\E k \in 1..Len(c.mins) : c.mins[k] = iv[1])>>
    [] kind = "Swap" -> IF iv[3] % 2 = 1 THEN <<iv[2], iv[1]>> ELSE <<iv[1], iv[2]>>
    [] kind = "Equal" -> <<B(iv[1] = iv[2])>>
    [] kind = "EqualConstant" -> <<B(iv[1] = c.v)>>
    [] kind = "NotEqualConstant" -> <<B(iv[1] # c.v)>>
    [] kind = "AnyEqual" -> <<B(\E x, y \in 1..Len(iv) : x # y /\ iv[x] = iv[y])>>
    [] kind = "Comparator" -> <<B(iv[1] > iv[2]), B(iv[1] = iv[2]), B(iv[1] < iv[2])>>
    [] kind = "ComparatorSignedUnsigned" ->
          \* outs = gtu, eq, ltu, gt, lt
          LET sa == ToSigned(iv[1], iw[1])
              sb == ToSigned(iv[2], iw[2])
          IN  <<B(iv[1] > iv[2]), B(iv[1] = iv[2]), B(iv[1] < iv[2]), B(sa > sb), B(sa < sb)>>
    [] kind = "Max2" -> <<Max(iv[1], iv[2])>>
    [] kind = "Min2" -> <<Min(iv[1], iv[2])>>
    [] kind = "SignedMax2" -> <<FromSigned(Max(ToSigned(iv[1], iw[1]), ToSigned(iv[2], iw[2])), ow[1])>>
    [] kind = "SignedMin2" -> <<FromSigned(Min(ToSigned(iv[1], iw[1]), ToSigned(iv[2], iw[2])), ow[1])>>
    [] kind = "Digit7Segment" -> <<SevenSeg(iv[1], 0)>>
    \* ------------------------------------------------------ fixed point
    [] kind = "FixedPointAdd" -> <<(iv[1] + iv[2]) % Pow2(ow[1])>>
    [] kind = "FixedPointSub" -> <<(iv[1] - iv[2]) % Pow2(ow[1])>>
    [] kind = "FixedPointSign" -> <<Msb(iv[1], iw[1])>>
    [] kind = "FixedPointMult" ->
          \* exact product of the signed values, rescaled by truncation (floor) to the result format
          <<((FxS(iv[1], c.af) * FxS(iv[2], c.bf)) \div Pow2(c.af[3] + c.bf[3] - c.rf[3])) % Pow2(ow[1])>>
    [] kind = "FixedPointComparator" ->
          LET sa == FxS(iv[1], c.af)
              sb == FxS(iv[2], c.af)
              d == sa - sb
              rep == d >= -Pow2(iw[1] - 1) /\ d <= Pow2(iw[1] - 1) - 1
          IN  IF rep THEN <<B(sa > sb), B(sa = sb), B(sa < sb)>> ELSE <<DC, DC, DC>>

\* the same wire attached to several input ports: c.alias[k] = index (in iv / iw) of the wire on operand k
CombRefA(kind, c, iv, iw, ow) ==
    IF "alias" \in DOMAIN c
    THEN CombRef(kind, c, [k \in 1..Len(c.alias) |-> iv[c.alias[k]]], [k \in 1..Len(c.alias) |-> iw[c.alias[k]]], ow)
    ELSE CombRef(kind, c, iv, iw, ow)

\* sanity of the references themselves (checked by TLC over small operands; a slip here is a
\* machinery failure, never a finding)
RefSanity(W) ==
    \A w \in W : \A a, b \in 0..(Pow2(w) - 1) :
        /\ (CombRef("Sub", <<>>, <<a, b>>, <<w, w>>, <<w>>)[1] + b) % Pow2(w) = a
        /\ CombRef("Neg", <<>>, <<CombRef("Neg", <<>>, <<a>>, <<w>>, <<w>>)[1]>>, <<w>>, <<w>>)[1] = a
        /\ CombRef("SignedMul", <<>>, <<a, b>>, <<w, w>>, <<w>>) = CombRef("SignedMul", <<>>, <<b, a>>, <<w, w>>, <<w>>)
        /\ CombRef("Max2", <<>>, <<a, b>>, <<w, w>>, <<w>>)[1] + CombRef("Min2", <<>>, <<a, b>>, <<w, w>>, <<w>>)[1] = a + b
        /\ LET cmp == CombRef("Comparator", <<>>, <<a, b>>, <<w, w>>, <<1, 1, 1>>) IN cmp[1] + cmp[2] + cmp[3] = 1
        /\ CombRef("Xor2", <<>>, <<CombRef("Xor2", <<>>, <<a, b>>, <<w, w>>, <<w>>)[1], b>>, <<w, w>>, <<w>>)[1] = a
        /\ b <= w => CombRef("RotateRightConstant", [n |-> b], <<CombRef("RotateLeftConstant", [n |-> b], <<a>>, <<w>>, <<w>>)[1]>>, <<w>>, <<w>>)[1] = a
        /\ a < 16 => \A d \in 0..1 : ((CombRef("BinaryToBCD", <<>>, <<a>>, <<4>>, <<8>>)[1] \div Pow2(4 * d)) % 16) < 10
=============================================================================
