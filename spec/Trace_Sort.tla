----------------------------- MODULE Trace_Sort -----------------------------
(* C04, binding V: netlists built in real py4hw (random graphs, shuffled     *)
(* library composites, extracted by harness/netlist.py) together with what  *)
(* the real HWSystem.getSimulator() did with them.  TLC runs the Kernel on  *)
(* each netlist and judges the recorded outcome.                            *)
(*   trace = [net, v0, status ("idle"|"raised"), order, vals]               *)
EXTENDS Kernel, Json, IOUtils

VARIABLES tid, judged
tvars == <<kvars, tid, judged>>

Traces == JsonDeserialize(IOEnv.TRACE_FILE)
T == Traces[tid]

Init ==
    /\ tid \in 1..Len(Traces)
    /\ judged = FALSE
    /\ KInit(Traces[tid].net, Traces[tid].v0)

Terminal == pc \in {"idle", "raised"}

Judge ==
    /\ Terminal /\ ~judged
    /\ judged' = TRUE
    /\ UNCHANGED <<kvars, tid>>
    /\ IF T.status = "idle" /\ Cyclic THEN PrintT(ToJson(<<"V", tid, "cyclic-accepted">>)) ELSE TRUE
    /\ IF T.status = "raised" /\ ~Cyclic THEN PrintT(ToJson(<<"V", tid, "acyclic-refused">>)) ELSE TRUE
    /\ IF T.status = "idle" /\ ~Cyclic /\ pc = "idle" /\ T.vals # val
       THEN PrintT(ToJson(<<"V", tid, "off-fixpoint">>)) ELSE TRUE
    /\ IF T.status = "idle" /\ ~AtFixpointOf(T.vals) /\ ~Cyclic
       THEN PrintT(ToJson(<<"V", tid, "not-a-fixpoint">>)) ELSE TRUE
    /\ IF T.status # pc THEN PrintT(ToJson(<<"D", tid, "status">>)) ELSE TRUE
    /\ IF T.status = "idle" /\ pc = "idle" /\ T.order # order THEN PrintT(ToJson(<<"D", tid, "order">>)) ELSE TRUE
    /\ PrintT(ToJson(<<"J", tid, passes>>))

Next ==
    \/ (GetSimulator /\ UNCHANGED <<tid, judged>>)
    \/ (SortPass /\ UNCHANGED <<tid, judged>>)
    \/ Judge

Spec == Init /\ [][Next]_tvars
=============================================================================
