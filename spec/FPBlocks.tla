------------------------------- MODULE FPBlocks -------------------------------
(* C13: the single-precision floating-point blocks.                           *)
(*                                                                            *)
(* Property layer (predicates over exact dyadics, module FloatFmt): what the   *)
(* statement demands of comparator, conversions, multiplier and adder on       *)
(* finite NORMAL operands.  Patterns are <<sb, ef, mf>> with mf a limb vector.  *)
(*                                                                            *)
(* Design layer: the adder and multiplier ALGORITHMS as py4hw builds them,     *)
(* parametric in the format (EW, MW) and in the width DW of the exponent-       *)
(* difference wire, so that TLC can run them over ALL operand pairs of small    *)
(* formats (MC_FP) and evaluate the same predicates.                           *)
EXTENDS FloatFmt

IsNormal(ew, p) == p[2] >= 1 /\ p[2] <= EMax(ew) - 1
Val(ew, mw, p) == Decode(ew, mw, p[1], p[2], p[3])

\* exponent of the leading bit of a non-zero dyadic
TopExp(d) == d.e + BitLength(d.m) - 1
\* the exact value is a normal number of the format (no overflow, no subnormal)
NormalRange(ew, d) == ~DZero(d) /\ TopExp(d) >= 1 - Bias(ew) /\ TopExp(d) <= Bias(ew)
\* 2^k as a dyadic
P2D(k) == [s |-> 1, m |-> FromInt(1, WB), e |-> k]
DAbs(d) == [d EXCEPT !.s = 1]

\* ------------------------------------------------------------ comparator
CmpOK(ew, mw, a, b, absolute, got) ==
    LET x == IF absolute THEN DAbs(Val(ew, mw, a)) ELSE Val(ew, mw, a)
        y == IF absolute THEN DAbs(Val(ew, mw, b)) ELSE Val(ew, mw, b)
        c == DCmp(x, y)
    IN  got = <<IF c = 1 THEN 1 ELSE 0, IF c = 0 THEN 1 ELSE 0, IF c = -1 THEN 1 ELSE 0>>

\* ------------------------------------------------------------ multiplier
\* |r - a*b| < 1 ulp of the exact product, whenever the exact product is normal
MulOK(ew, mw, a, b, r) ==
    LET exact == DMul(Val(ew, mw, a), Val(ew, mw, b)) IN
    NormalRange(ew, exact) =>
        /\ r[2] # EMax(ew)
        /\ DCmp(DAbs(DSub(Val(ew, mw, r), exact)), P2D(TopExp(exact) - mw)) = -1

\* ------------------------------------------------------------ adder
\* sign of the exact sum, |r - (a+b)| < 2 ulp of the larger operand, whenever the exact sum is normal
AddOK(ew, mw, a, b, r) ==
    LET x == Val(ew, mw, a)
        y == Val(ew, mw, b)
        exact == DAdd(x, y)
        big == IF MagCmp(x, y) >= 0 THEN x ELSE y
    IN  NormalRange(ew, exact) =>
            /\ r[2] # EMax(ew)
            /\ Val(ew, mw, r).s = exact.s
            /\ DCmp(DAbs(DSub(Val(ew, mw, r), exact)), P2D(TopExp(big) - mw + 1)) = -1

\* ------------------------------------------------------------ conversions (single precision <-> 32-bit integer)
\* integer part of |d| truncated toward zero, as a limb vector; frac = TRUE when something was discarded
IntPart(d) == IF d.e >= 0 THEN Shl2(d.m, d.e, WB) ELSE Shr2(d.m, 0 - d.e, WB)
HasFrac(d) == d.e < 0 /\ ~DZero(d)                         \* canonical dyadics have an odd mantissa
FPtoIntOK(a, r32, plost, invalid) ==
    LET d == Val(8, 23, a)
        big == DCmp(DAbs(d), P2D(31)) >= 0
    IN  IF big THEN invalid = 1
        ELSE /\ invalid = 0
             /\ Norm(r32, 32) = (IF d.s = 1 THEN Norm(IntPart(d), 32) ELSE Neg(Norm(IntPart(d), 32), 32))
             /\ plost = (IF HasFrac(d) THEN 1 ELSE 0)

\* any 32-bit two's complement integer -> its value truncated toward zero to 24 significant bits
InttoFPOK(a32, r, plost) ==
    LET neg == MsbOf(Norm(a32, 32), 32) = 1
        mag == Norm(IF neg THEN Neg(Norm(a32, 32), 32) ELSE Norm(a32, 32), WB)
        len == BitLength(mag)
        drop == IF len > 24 THEN len - 24 ELSE 0
        kept == Shl2(Shr2(mag, drop, WB), drop, WB)
        exp == MkD(IF neg THEN -1 ELSE 1, kept, 0)
    IN  /\ SameValue(Val(8, 23, r), exp)
        /\ plost = (IF kept # mag THEN 1 ELSE 0)

\* ====================================================================== design layer
\* Operands are integers here (small formats): pattern = sb * 2^(ew+mw) + ef * 2^mw + mf.
Fields(ew, mw, p) == <<p \div Pow2(ew + mw), (p \div Pow2(mw)) % Pow2(ew), p % Pow2(mw)>>
Limbed(f) == <<f[1], f[2], FromInt(f[3], WB)>>

\* FPAdder as built: swap so that |a| >= |b| (absolute comparator on the patterns), align b's mantissa by the exponent
\* difference TRUNCATED TO dw BITS, add or subtract, normalise with a leading-zero count, exponent = ea - clz + 1,
\* drop the lowest bit.  Mantissas carry the hidden bit (mw+1 bits); the sum has mw+2 bits.
AdderModel(ew, mw, dw, pa, pb) ==
    LET fa0 == Fields(ew, mw, pa)
        fb0 == Fields(ew, mw, pb)
        swap == (pa % Pow2(ew + mw)) < (pb % Pow2(ew + mw))
        fa == IF swap THEN fb0 ELSE fa0
        fb == IF swap THEN fa0 ELSE fb0
        ma == fa[3] + Pow2(mw)
        mb0 == fb[3] + Pow2(mw)
        ediff == (fa[2] - fb[2]) % Pow2(dw)
        mb == mb0 \div Pow2(ediff)
        mr == IF fa[1] = fb[1] THEN ma + mb ELSE (ma - mb) % Pow2(mw + 2)
        clz == Clz(mr, mw + 2)
        mr2 == (mr * Pow2(clz)) % Pow2(mw + 2)
        er == (fa[2] - clz + 1) % Pow2(ew)
    IN  <<fa[1], er, (mr2 \div 2) % Pow2(mw)>>
=============================================================================
