--------------------------------- MODULE Uart ---------------------------------
(* Property layer of the UART link (C17): bytes accepted at the serializer's   *)
(* ready/valid port, bytes presented at the deserializer's ready/valid port,   *)
(* and an INDEPENDENT software receiver for the line: wait for a falling edge, *)
(* sample mid-bit every 2N cycles (start bit 0, eight data bits least          *)
(* significant first, stop bit 1).                                            *)
EXTENDS Naturals, Integers, Sequences, TLC

IsPrefix(a, b) == Len(a) <= Len(b) /\ SubSeq(b, 1, Len(a)) = a

RECURSIVE P2(_)
P2(k) == IF k = 0 THEN 1 ELSE 2 * P2(k - 1)

\* line = sequence of line values, one per system clock cycle; half = N (clocks per bit = 2N)
RECURSIVE ByteAt(_, _, _, _)
ByteAt(line, i, half, k) == IF k = 8 THEN 0 ELSE line[i + half + 2 * half * (k + 1)] * P2(k) + ByteAt(line, i, half, k + 1)

RECURSIVE LineDecodeFrom(_, _, _, _)
\* i = index being examined, prev = line value before it; result = sequence of bytes (-1 marks a framing error)
LineDecodeFrom(line, half, i, prev) ==
    IF i > Len(line) THEN <<>>
    ELSE IF prev = 1 /\ line[i] = 0
         THEN LET stop == i + half + 18 * half IN
              IF stop > Len(line) THEN <<>>                     \* incomplete frame at the end of the recording
              ELSE IF line[i + half] # 0 \/ line[stop] # 1 THEN <<-1>>
              ELSE <<ByteAt(line, i, half, 0)>> \o LineDecodeFrom(line, half, stop + 1, 1)
         ELSE LineDecodeFrom(line, half, i + 1, line[i])

LineDecode(line, half) == LineDecodeFrom(line, half, 1, 1)
=============================================================================
