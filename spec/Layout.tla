-------------------------------- MODULE Layout --------------------------------
(* C18: what a correct schematic of a structural block is (the placer itself   *)
(* is a 2400-line heuristic and is not modelled: this is the result relation). *)
(*                                                                            *)
(* netlist N = [children (count), inports, outports (counts),                  *)
(*             wires |-> Seq([driver |-> pin or <<>>, readers |-> Seq(pin)])]  *)
(*   pin = <<"child", i, portname>> | <<"in", i, "">> | <<"out", i, "">>      *)
(* layout  L = [syms |-> Seq([kind, ref, x, y, w, h, row, col]),               *)
(*             nets |-> Seq([wire, src, sport, dst, dport])]                   *)
(*   kind in {"child", "in", "out", "virtual", "missing"}; ref = index of the  *)
(*   child / port the symbol stands for (0 for virtual symbols)               *)
EXTENDS Naturals, Integers, Sequences, FiniteSets, TLC

Real(k) == k \in {"child", "in", "out"}
Syms(L) == 1..Len(L.syms)

\* ---------------------------------------------------------------- clause 1: one symbol per child and per port
Expected(N) == {<<"child", i>> : i \in 1..N.children} \cup {<<"in", i>> : i \in 1..N.inports} \cup {<<"out", i>> : i \in 1..N.outports}
SymbolsFor(L, e) == {s \in Syms(L) : L.syms[s].kind = e[1] /\ L.syms[s].ref = e[2]}
Missing(N, L) == {e \in Expected(N) : SymbolsFor(L, e) = {}}
Duplicated(N, L) == {e \in Expected(N) : Cardinality(SymbolsFor(L, e)) > 1}
Strangers(N, L) == {s \in Syms(L) : Real(L.syms[s].kind) /\ <<L.syms[s].kind, L.syms[s].ref>> \notin Expected(N)}

\* ---------------------------------------------------------------- clause 2: no two real symbols overlap
Overlap(a, b) == /\ a.x < b.x + b.w /\ b.x < a.x + a.w /\ a.y < b.y + b.h /\ b.y < a.y + a.h
Overlaps(L) == {<<s, t>> \in Syms(L) \X Syms(L) :
                   /\ s < t /\ Real(L.syms[s].kind) /\ Real(L.syms[t].kind)
                   /\ (Overlap(L.syms[s], L.syms[t]) \/ (L.syms[s].row = L.syms[t].row /\ L.syms[s].col = L.syms[t].col /\ L.syms[s].row >= 0))}

\* ---------------------------------------------------------------- clause 3: every used wire is one connected figure
NetsOf(L, w) == {n \in 1..Len(L.nets) : L.nets[n].wire = w}
Touched(L, w) == {L.nets[n].src : n \in NetsOf(L, w)} \cup {L.nets[n].dst : n \in NetsOf(L, w)}
Adj(L, w, a, b) == \E n \in NetsOf(L, w) : (L.nets[n].src = a /\ L.nets[n].dst = b) \/ (L.nets[n].src = b /\ L.nets[n].dst = a)
RECURSIVE Reach(_, _, _, _)
Reach(L, w, S, k) == IF k = 0 THEN S ELSE Reach(L, w, S \cup {b \in Touched(L, w) : \E a \in S : Adj(L, w, a, b)}, k - 1)
Connected(L, w) == LET T == Touched(L, w) IN T = {} \/ Reach(L, w, {CHOOSE a \in T : TRUE}, Cardinality(T)) = T

\* pins the drawing attaches to wire w: a net end on a real symbol is a pin
PinOf(L, s, port, side) ==
    LET y == L.syms[s] IN
    IF y.kind = "child" THEN <<"child", y.ref, port>> ELSE <<y.kind, y.ref, "">>
DrawnPins(L, w) ==
    {PinOf(L, L.nets[n].src, L.nets[n].sport, "s") : n \in {n \in NetsOf(L, w) : Real(L.syms[L.nets[n].src].kind)}}
    \cup {PinOf(L, L.nets[n].dst, L.nets[n].dport, "d") : n \in {n \in NetsOf(L, w) : Real(L.syms[L.nets[n].dst].kind)}}
TruePins(N, w) == (IF N.wires[w].driver = <<>> THEN {} ELSE {N.wires[w].driver}) \cup {N.wires[w].readers[k] : k \in 1..Len(N.wires[w].readers)}
Used(N, w) == N.wires[w].readers # <<>> /\ N.wires[w].driver # <<>>

\* geometry: the routed polyline of a net of wire w must not pass through the position of a pin of another wire
\* L.pins = Seq([wire, x, y]) positions of all real pins; net.path = Seq(<<x, y>>)
Between(a, b, c) == (a <= b /\ b <= c) \/ (c <= b /\ b <= a)
OnSegment(p, q, pt) == /\ (q[1] - p[1]) * (pt[2] - p[2]) = (q[2] - p[2]) * (pt[1] - p[1])
                       /\ Between(p[1], pt[1], q[1]) /\ Between(p[2], pt[2], q[2])
OnPath(path, pt) == \E k \in 1..(Len(path) - 1) : OnSegment(path[k], path[k + 1], pt)
\* (a symbol may draw two of its pins at one point, e.g. the carry-in of an adder symbol: a foreign pin that coincides with a pin
\* of w itself is a property of the symbol, not of the routing, and is not counted)
OwnPinAt(L, w, x, y) == \E j \in 1..Len(L.pins) : L.pins[j].wire = w /\ L.pins[j].x = x /\ L.pins[j].y = y
ForeignPinsCrossed(L, w) ==
    {k \in 1..Len(L.pins) : /\ L.pins[k].wire # w /\ L.pins[k].wire # 0
                             /\ ~OwnPinAt(L, w, L.pins[k].x, L.pins[k].y)
                             /\ \E n \in NetsOf(L, w) : OnPath(L.nets[n].path, <<L.pins[k].x, L.pins[k].y>>)}

\* geometry of the drawn figure of wire w: the polylines of its nets plus the horizontal line that a pass-through marker draws
\* through its cell (feedback start / stop markers draw nothing, the nets of a feedback path have to meet on their track).
\* Two pieces belong together when two of their segments touch; bounding boxes are compared, which is exact for the
\* horizontal and vertical segments of the router and can only err towards "touching" for anything else.
Max2(a, b) == IF a >= b THEN a ELSE b
Min2(a, b) == IF a <= b THEN a ELSE b
SegTouch(p, q, r, t) ==
    /\ Max2(Min2(p[1], q[1]), Min2(r[1], t[1])) <= Min2(Max2(p[1], q[1]), Max2(r[1], t[1]))
    /\ Max2(Min2(p[2], q[2]), Min2(r[2], t[2])) <= Min2(Max2(p[2], q[2]), Max2(r[2], t[2]))
Segs(path) == IF Len(path) = 1 THEN {<<path[1], path[1]>>} ELSE {<<path[k], path[k + 1]>> : k \in 1..(Len(path) - 1)}
PathsTouch(a, b) == \E x \in Segs(a), y \in Segs(b) : SegTouch(x[1], x[2], y[1], y[2])
IsPass(L, s) == L.syms[s].kind = "virtual" /\ "vk" \in DOMAIN L.syms[s] /\ L.syms[s].vk = "pass"
PassLine(y) == <<<<y.x, y.y + (y.h \div 2)>>, <<y.x + y.w, y.y + (y.h \div 2)>>>>
Pieces(L, w) == {<<"net", n>> : n \in NetsOf(L, w)} \cup {<<"pass", s>> : s \in {s \in Touched(L, w) : IsPass(L, s)}}
PathOf(L, pc) == IF pc[1] = "net" THEN L.nets[pc[2]].path ELSE PassLine(L.syms[pc[2]])
RECURSIVE GeoReach(_, _, _, _)
GeoReach(L, P, S, k) ==
    IF k = 0 THEN S
    ELSE GeoReach(L, P, S \cup {b \in P : PathOf(L, b) # <<>> /\ \E a \in S : PathOf(L, a) # <<>> /\ PathsTouch(PathOf(L, a), PathOf(L, b))}, k - 1)
GeoConnected(L, w) == LET P == Pieces(L, w) IN P = {} \/ GeoReach(L, P, {CHOOSE a \in P : TRUE}, Cardinality(P)) = P
\* every real pin of the wire lies on the drawn figure
PinsOffFigure(L, w) ==
    {k \in 1..Len(L.pins) : L.pins[k].wire = w /\ ~\E pc \in Pieces(L, w) : PathOf(L, pc) # <<>> /\ Len(PathOf(L, pc)) > 1
                                                                                  /\ OnPath(PathOf(L, pc), <<L.pins[k].x, L.pins[k].y>>)}

WireFindings(N, L, w) ==
    (IF ~Connected(L, w) THEN {<<"wire-figure-not-connected", w>>} ELSE {})
    \cup (IF Connected(L, w) /\ ~GeoConnected(L, w) THEN {<<"drawn-figure-in-pieces", w>>} ELSE {})
    \cup (IF PinsOffFigure(L, w) # {} THEN {<<"pin-off-the-drawn-figure", w>>} ELSE {})
    \cup (IF TruePins(N, w) \ DrawnPins(L, w) # {} THEN {<<"pin-not-touched", w>>} ELSE {})
    \cup (IF DrawnPins(L, w) \ TruePins(N, w) # {} THEN {<<"foreign-pin-touched", w>>} ELSE {})
    \cup (IF ForeignPinsCrossed(L, w) # {} THEN {<<"routed-through-foreign-pin", w>>} ELSE {})

Findings(N, L) ==
    {<<"symbol-missing", e>> : e \in Missing(N, L)}
    \cup {<<"symbol-duplicated", e>> : e \in Duplicated(N, L)}
    \cup {<<"unknown-symbol", s>> : s \in Strangers(N, L)}
    \cup {<<"symbols-overlap", p>> : p \in Overlaps(L)}
    \cup UNION {WireFindings(N, L, w) : w \in {w \in 1..Len(N.wires) : Used(N, w)}}

WellFormedLayout(N, L) == Findings(N, L) = {}
=============================================================================
