------------------------------- MODULE Trace_Uart -------------------------------
(* C17, binding V: per-cycle recordings of the real UART assembly judged at the  *)
(* property layer.   trace = [half, complete, steps]                             *)
(*   step = <<sv, sx, sr, dr, dv, dx, line>>: serializer valid/byte offered and  *)
(*   its ready, deserializer ready/valid/byte (all as seen going into the edge), *)
(*   and the line value after the edge.                                          *)
EXTENDS Uart, Json, IOUtils

VARIABLES tid, l, sent, deliv, line, bad
Traces == JsonDeserialize(IOEnv.TRACE_FILE)
T == Traces[tid]

Init == tid \in 1..Len(Traces) /\ l = 1 /\ sent = <<>> /\ deliv = <<>> /\ line = <<>> /\ bad = FALSE

Say(kind, clause, detail) == PrintT(ToJson(<<kind, tid, l, clause, detail>>))

Step ==
    /\ ~bad /\ l <= Len(T.steps)
    /\ l' = l + 1 /\ tid' = tid
    /\ LET s == T.steps[l]
           se == IF s[1] = 1 /\ s[3] = 1 THEN Append(sent, s[2]) ELSE sent
           de == IF s[5] = 1 /\ s[4] = 1 THEN Append(deliv, s[6]) ELSE deliv
       IN  /\ sent' = se /\ deliv' = de /\ line' = Append(line, s[7])
           /\ IF ~IsPrefix(de, se) THEN bad' = TRUE /\ Say("V", "delivered-differs-from-accepted", de)
              ELSE bad' = FALSE

Done ==
    /\ ~bad /\ l > Len(T.steps)
    /\ LET ld == LineDecode(line, T.half) IN
       IF \E k \in 1..Len(ld) : ld[k] = -1 THEN Say("V", "line-framing", ld)
       ELSE IF ~(IsPrefix(ld, sent) \/ IsPrefix(sent, ld)) THEN Say("V", "line-not-8N1", ld)
       ELSE IF T.complete = 1 /\ deliv # sent THEN Say("V", "byte-not-delivered", deliv)
       ELSE IF T.complete = 1 /\ ld # sent THEN Say("V", "line-incomplete", ld)
       ELSE IF T.complete = 1 /\ Len(sent) # T.offered THEN Say("V", "byte-not-accepted", sent)
       ELSE Say("J", "done", Len(sent))
    /\ FALSE

Next == Step \/ Done
=============================================================================
