------------------------------ MODULE Waveform ------------------------------
(* The waveform recorder (py4hw.logic.simulation.Waveform) and its WaveDrom  *)
(* rendering.                                                                *)
(*                                                                           *)
(* The recorder is a clockable leaf: at every edge it appends, for every      *)
(* UNIQUE watched wire (a wire given twice, or given as a port and as a wire, *)
(* counts once), the value the wire carried going into that edge.            *)
(*                                                                           *)
(* Text is a sequence of character codes.                                    *)
EXTENDS Naturals, Integers, Sequences, FiniteSets, TLC

\* ----------------------------------------------------------------- characters
ChX == 120   \* "x"
ChDot == 46  \* "."
ChP == 80    \* "P"
Ch0 == 48
Ch2 == 50
HexDigit(d) == IF d < 10 THEN 48 + d ELSE 55 + d      \* upper case, as '{:X}'
HexValOf(ch) == IF ch >= 48 /\ ch <= 57 THEN ch - 48
                ELSE IF ch >= 65 /\ ch <= 70 THEN ch - 55
                ELSE IF ch >= 97 /\ ch <= 102 THEN ch - 87 ELSE -1

RECURSIVE ToHex(_)
ToHex(v) == IF v < 16 THEN <<HexDigit(v)>> ELSE Append(ToHex(v \div 16), HexDigit(v % 16))
RECURSIVE FromHex(_, _)
FromHex(s, acc) == IF s = <<>> THEN acc ELSE FromHex(Tail(s), acc * 16 + HexValOf(Head(s)))

\* ------------------------------------------------------------------ recorder
\* data = sequence (one entry per unique wire) of sample sequences
Sample(data, vec) == [k \in 1..Len(data) |-> Append(data[k], vec[k])]
Clear(data) == [k \in 1..Len(data) |-> <<>>]

\* ------------------------------------------------------------------ rendering
\* one lane: [wave |-> text, labels |-> Seq(text)] for a sample sequence d of a wire of width w
RECURSIVE RenderFrom(_, _, _, _, _, _)
RenderFrom(d, w, k, last, wave, labels) ==
    IF k > Len(d) THEN [wave |-> Append(wave, ChX), labels |-> labels]
    ELSE IF k > 1 /\ d[k] = last THEN RenderFrom(d, w, k + 1, last, Append(wave, ChDot), labels)
    ELSE IF w = 1 THEN RenderFrom(d, w, k + 1, d[k], Append(wave, Ch0 + d[k]), labels)
    ELSE RenderFrom(d, w, k + 1, d[k], Append(wave, Ch2), Append(labels, ToHex(d[k])))

Render(d, w) == RenderFrom(d, w, 1, -1, <<ChX>>, <<>>)

ClockLane(n) == <<ChP>> \o [k \in 1..n |-> ChDot] \o <<ChX>>

\* ------------------------------------------------------------------- decoding
\* inverse of Render: sample sequence described by a lane, or <<-1>> when the lane is malformed
RECURSIVE DecodeFrom(_, _, _, _, _, _)
DecodeFrom(wave, labels, k, li, last, acc) ==
    IF k = Len(wave) THEN (IF wave[k] = ChX /\ li = Len(labels) + 1 THEN acc ELSE <<-1>>)
    ELSE LET ch == wave[k] IN
         IF ch = ChDot THEN (IF last < 0 THEN <<-1>> ELSE DecodeFrom(wave, labels, k + 1, li, last, Append(acc, last)))
         ELSE IF ch = Ch0 \/ ch = Ch0 + 1 THEN DecodeFrom(wave, labels, k + 1, li, ch - Ch0, Append(acc, ch - Ch0))
         ELSE IF ch = Ch2 THEN (IF li > Len(labels) \/ labels[li] = <<>> \/ \E j \in 1..Len(labels[li]) : HexValOf(labels[li][j]) < 0
                                THEN <<-1>>
                                ELSE LET v == FromHex(labels[li], 0) IN DecodeFrom(wave, labels, k + 1, li + 1, v, Append(acc, v)))
         ELSE <<-1>>

Decode(wave, labels) ==
    IF Len(wave) < 2 \/ wave[1] # ChX THEN <<-1>> ELSE DecodeFrom(wave, labels, 2, 1, -1, <<>>)

\* cycles spanned by a lane: every character between the leading and the trailing x
Span(wave) == Len(wave) - 2

\* ------------------------------------------------------------ codec properties
RECURSIVE SeqsUpTo(_, _)
SeqsUpTo(V, n) == IF n = 0 THEN {<<>>} ELSE SeqsUpTo(V, n - 1) \cup {Append(s, v) : s \in SeqsUpTo(V, n - 1), v \in V}

CodecOK(maxlen) ==
    /\ \A d \in SeqsUpTo({0, 1}, maxlen) : LET r == Render(d, 1) IN Decode(r.wave, r.labels) = d /\ Span(r.wave) = Len(d)
    /\ \A d \in SeqsUpTo({0, 1, 2, 3}, maxlen) :
          LET r == Render(d, 2) IN Decode(r.wave, r.labels) = d /\ Span(r.wave) = Len(d)
    /\ \A d \in SeqsUpTo({0, 9, 10, 255}, maxlen - 1) :
          LET r == Render(d, 8) IN Decode(r.wave, r.labels) = d /\ Span(r.wave) = Len(d)
    /\ \A n \in 0..maxlen : Span(ClockLane(n)) = n
=============================================================================
