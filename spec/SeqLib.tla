------------------------------- MODULE SeqLib -------------------------------
(* Reference state machines of the storage and sequential library blocks,   *)
(* written from their documentation (C09).                                  *)
(*   SInit(kind, c, iw, ow)           state at power-up                     *)
(*   SNext(kind, c, s, iv, iw, ow)    state after one clock edge            *)
(*   SOut(kind, c, s, iv, iw, ow)     output port values in state s with    *)
(*                                    inputs iv (DC = not constrained)      *)
(* Port conventions as in harness/seqlib.py.                                *)
EXTENDS Bits, FiniteSets

DC == -1

Bit0(x) == x % 2 = 1

\* the register rule: reset (=1) > enable (non-zero) > hold
RegRule(s, d, e, r, rv) == IF r = 1 THEN rv ELSE IF e # 0 THEN d ELSE s

Zeros(n) == [k \in 1..n |-> 0]

SInit(kind, c, iw, ow) ==
    CASE kind = "Reg" -> c.rv
      [] kind \in {"TReg", "Counter", "ModuloCounter", "StepUpCounter", "EdgeDetector"} -> 0
      [] kind = "DelayLine" -> Zeros(c.delay)
      [] kind = "PipelinePhase" -> Zeros(Len(ow))
      [] kind = "ShiftRegisterBidirectional" -> Zeros(c.depth)
      [] kind = "Stack" -> [stk |-> <<>>, dout |-> 0, ok |-> TRUE]
      [] kind = "ClockDivider" -> [cnt |-> 0, clk |-> 0]
      [] kind = "SynchronousMemory" -> [mem |-> Zeros(Pow2(iw[1])), rd |-> 0]
      [] kind = "DualPortSynchronousMemory" -> [mem |-> Zeros(Pow2(iw[1])), rda |-> 0, rdb |-> 0]

\* optional ports: c.e / c.r = 1 when the port exists; inputs are ordered as listed in seqlib.py
SNext(kind, c, s, iv, iw, ow) ==
    CASE kind = "Reg" ->
           \* ins: d, [e], [r]
           LET e == IF c.e = 1 THEN iv[2] ELSE 1
               r == IF c.r = 1 THEN iv[IF c.e = 1 THEN 3 ELSE 2] ELSE 0
           IN  RegRule(s, iv[1], e, r, c.rv)
      [] kind = "TReg" ->
           \* ins: t, [e], [r]
           LET e == IF c.e = 1 THEN iv[2] ELSE 1
               r == IF c.r = 1 THEN iv[IF c.e = 1 THEN 3 ELSE 2] ELSE 0
           IN  RegRule(s, IF Bit0(iv[1]) THEN 1 - s ELSE s, e, r, 0)
      [] kind = "Counter" ->
           \* ins: [reset], [inc]
           LET rst == IF c.r = 1 THEN Bit0(iv[1]) ELSE FALSE
               inc == IF c.i = 1 THEN Bit0(iv[IF c.r = 1 THEN 2 ELSE 1]) ELSE TRUE
           IN  IF rst THEN 0 ELSE IF inc THEN (s + 1) % Pow2(ow[1]) ELSE s
      [] kind = "ModuloCounter" ->
           \* ins: reset, inc ; outs: q, carryout
           IF Bit0(iv[1]) THEN 0
           ELSE IF Bit0(iv[2]) THEN (IF s = c.mod - 1 THEN 0 ELSE (s + 1) % Pow2(ow[1]))
           ELSE s
      [] kind = "StepUpCounter" ->
           \* ins: reset, inc, step
           IF Bit0(iv[1]) THEN 0 ELSE IF Bit0(iv[2]) THEN (s + iv[3]) % Pow2(ow[1]) ELSE s
      [] kind = "DelayLine" ->
           \* ins: a, [en], [reset]
           LET e == IF c.e = 1 THEN iv[2] ELSE 1
               r == IF c.r = 1 THEN iv[IF c.e = 1 THEN 3 ELSE 2] ELSE 0
           IN  IF r = 1 THEN Zeros(c.delay)
               ELSE IF e # 0 THEN [k \in 1..c.delay |-> IF k = 1 THEN iv[1] ELSE s[k - 1]]
               ELSE s
      [] kind = "PipelinePhase" ->
           \* ins: reset, in1, in2, ...
           IF iv[1] = 1 THEN Zeros(Len(ow)) ELSE [k \in 1..Len(ow) |-> iv[k + 1]]
      [] kind = "ShiftRegisterBidirectional" ->
           \* ins: left_in, right_in, shift_left, shift_right ; cells 1..depth, cell 1 = left
           LET d == c.depth IN
           IF Bit0(iv[3]) THEN [k \in 1..d |-> IF k = d THEN iv[2] ELSE s[k + 1]]
           ELSE IF iv[4] # 0 THEN [k \in 1..d |-> IF k = 1 THEN iv[1] ELSE s[k - 1]]
           ELSE s
      [] kind = "Stack" ->
           \* ins: din, push, pop.  LIFO within its depth; simultaneous push and pop is not defined
           LET push == iv[2] # 0
               pop == iv[3] # 0
           IN  IF ~s.ok THEN s
               ELSE IF push /\ pop THEN [s EXCEPT !.ok = FALSE]
               ELSE IF push THEN [s EXCEPT !.stk = SubSeq(<<iv[1]>> \o s.stk, 1, Min(c.depth, Len(s.stk) + 1))]
               ELSE IF pop THEN [stk |-> IF s.stk = <<>> THEN <<>> ELSE Tail(s.stk),
                                 dout |-> IF s.stk = <<>> THEN DC ELSE Head(s.stk), ok |-> TRUE]
               ELSE s
      [] kind = "EdgeDetector" -> iv[1]
      [] kind = "ClockDivider" ->
           \* ins: [reset] ; n = c.n edges per half period
           IF c.r = 1 /\ iv[1] = 1 THEN [cnt |-> 0, clk |-> 0]
           ELSE [cnt |-> IF s.cnt = c.n - 1 THEN 0 ELSE s.cnt + 1,
                 clk |-> IF s.cnt = c.n - 1 THEN 1 - s.clk ELSE s.clk]
      [] kind = "SynchronousMemory" ->
           \* ins: read_address, write_address, write, writedata ; read returns the content before a same-cycle write
           [mem |-> IF iv[3] # 0 THEN [s.mem EXCEPT ![iv[2] + 1] = iv[4]] ELSE s.mem,
            rd |-> s.mem[iv[1] + 1]]
      [] kind = "DualPortSynchronousMemory" ->
           \* ins: read_address_a, write_address_a, write_a, writedata_a, then the same four for port b.  Both reads return
           \* the content before the writes of this cycle; two writes to one cell in one cycle: port b is applied last.
           LET m1 == IF iv[3] # 0 THEN [s.mem EXCEPT ![iv[2] + 1] = iv[4]] ELSE s.mem
           IN  [mem |-> IF iv[7] # 0 THEN [m1 EXCEPT ![iv[6] + 1] = iv[8]] ELSE m1,
                rda |-> s.mem[iv[1] + 1], rdb |-> s.mem[iv[5] + 1]]

SOut(kind, c, s, iv, iw, ow) ==
    CASE kind \in {"Reg", "TReg", "Counter", "StepUpCounter"} -> <<s % Pow2(ow[1])>>
      [] kind = "ModuloCounter" -> <<s, IF s = c.mod - 1 THEN 1 ELSE 0>>
      [] kind = "DelayLine" -> IF c.delay = 0 THEN <<iv[1]>> ELSE <<s[c.delay]>>     \* no register: a buffer
      [] kind = "PipelinePhase" -> s
      [] kind = "ShiftRegisterBidirectional" -> <<s[1], s[c.depth]>>
      [] kind = "Stack" -> <<IF s.ok THEN s.dout ELSE DC>>
      [] kind = "EdgeDetector" ->
           LET a == iv[1] IN
           <<CASE c.dir = "pos" -> IF a = 1 /\ s = 0 THEN 1 ELSE 0
               [] c.dir = "neg" -> IF a = 0 /\ s = 1 THEN 1 ELSE 0
               [] c.dir = "both" -> IF a # s THEN 1 ELSE 0>>
      [] kind = "ClockDivider" -> <<s.clk>>
      [] kind = "SynchronousMemory" -> <<s.rd>>
      [] kind = "DualPortSynchronousMemory" -> <<s.rda, s.rdb>>
=============================================================================
