------------------------------- MODULE MC_Seq -------------------------------
(* C09: the reachable graph of every reference state machine of SeqLib under *)
(* ALL inputs at every edge.  `hist` is hidden by the VIEW: TLC expands each  *)
(* distinct reference state once and prints every outgoing (state, input)     *)
(* transition with an input history reaching it, so that the replay executes  *)
(* every transition of the documented machine on the real block at least once.*)
EXTENDS SeqLib, Json, IOUtils, TLC

CONSTANTS MaxDepth, EmitMod
VARIABLES cid, s, hist
View == <<cid, s>>

Configs == JsonDeserialize(IOEnv.CFG_FILE)
C == Configs[cid]

RECURSIVE AllVals(_)
AllVals(ws) == IF ws = <<>> THEN {<<>>}
               ELSE {<<v>> \o r : v \in 0..(Pow2(Head(ws)) - 1), r \in AllVals(Tail(ws))}

Init == /\ cid \in 1..Len(Configs)
        /\ s = SInit(Configs[cid].kind, Configs[cid].c, Configs[cid].iw, Configs[cid].ow)
        /\ hist = <<>>

OutOK(o) == \A k \in 1..Len(o) : o[k] = DC \/ o[k] \in 0..(Pow2(C.ow[k]) - 1)

Next ==
    /\ Len(hist) < MaxDepth
    /\ \E iv \in AllVals(C.iw) :
         LET n == SNext(C.kind, C.c, s, iv, C.iw, C.ow) IN
         /\ s' = n
         /\ hist' = Append(hist, iv)
         /\ cid' = cid
         /\ IF RandomElement(1..EmitMod) = 1
            THEN PrintT(ToJson(<<"Q", cid, Append(hist, iv)>>)) ELSE TRUE

\* outputs of the reference machines always fit their ports
OutputsInRange == \A iv \in AllVals(C.iw) : OutOK(SOut(C.kind, C.c, s, iv, C.iw, C.ow))
=============================================================================
