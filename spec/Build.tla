------------------------------- MODULE Build -------------------------------
(* The construction API of py4hw (base.py) as a state machine.               *)
(*                                                                           *)
(*   Logic.__init__(parent, name)      -> NewChild   (registered before ports)*)
(*   Logic.wire / Wire.__init__        -> NewWire    (appendWire)            *)
(*   Logic.addIn / InPort.__init__     -> AddIn      (sink only if primitive)*)
(*   Logic.addOut / OutPort.__init__   -> AddOut     (setSource if primitive)*)
(*   Wire.rename / reparent / reparentAndRename                              *)
(*   debug.checkIntegrity              -> CheckIntegrity                     *)
(*                                                                           *)
(* Every action has its failing twin: err' names the exception and the state *)
(* is left as the code leaves it (which is "unchanged" except where noted).  *)
EXTENDS Naturals, Sequences, FiniteSets, TLC

CONSTANTS Names,       \* instance / wire names
          MaxObjs,     \* objects including the top level (object 1)
          MaxWires,
          MaxPorts,    \* ports per object (in + out)
          MaxCalls,
          HasClk       \* TRUE: the top level starts with the wire "clk" that every HWSystem creates for its clock driver

VARIABLES objs,   \* Seq([parent, name, prim, ins, outs, kids])   kids = registered children (dict order)
          wires,  \* Seq([parent, name, source, sinks])            every Wire object ever registered
          reg,    \* reg[p] = Seq(wire id): p._wires in dict order
          err,    \* "" or the class of error raised by the last call
          calls   \* number of calls so far

bvars == <<objs, wires, reg, err, calls>>

Objs  == 1..Len(objs)
WireIds == 1..Len(wires)

SeqRange(s) == {s[k] : k \in 1..Len(s)}
Remove(s, x) == SelectSeq(s, LAMBDA y : y # x)

\* the registered wire of parent p called n, or 0
Holder(rg, ws, p, n) == IF \E w \in SeqRange(rg[p]) : ws[w].name = n
                        THEN CHOOSE w \in SeqRange(rg[p]) : ws[w].name = n ELSE 0
\* the registered child of p called n, or 0
Child(os, p, n) == IF \E c \in SeqRange(os[p].kids) : os[c].name = n
                   THEN CHOOSE c \in SeqRange(os[p].kids) : os[c].name = n ELSE 0

Registered(w) == w \in SeqRange(reg[wires[w].parent])

BInit ==
    /\ objs = <<[parent |-> 0, name |-> "top", prim |-> FALSE, ins |-> <<>>, outs |-> <<>>, ios |-> <<>>, kids |-> <<>>]>>
    /\ wires = IF HasClk THEN <<[parent |-> 1, name |-> "clk", source |-> 0, sinks |-> <<>>]>> ELSE <<>>
    /\ reg = IF HasClk THEN <<<<1>>>> ELSE <<<<>>>>
    /\ err = ""
    /\ calls = 0

Tick == calls' = calls + 1

NewWire(p, n) ==
    /\ Len(wires) < MaxWires
    /\ Tick
    /\ IF Holder(reg, wires, p, n) # 0
       THEN err' = "dupwire" /\ UNCHANGED <<objs, wires, reg>>
       ELSE /\ wires' = Append(wires, [parent |-> p, name |-> n, source |-> 0, sinks |-> <<>>])
            /\ reg' = [reg EXCEPT ![p] = Append(@, Len(wires) + 1)]
            /\ err' = ""
            /\ UNCHANGED objs

NewChild(p, n, prim) ==
    /\ Len(objs) < MaxObjs
    /\ ~objs[p].prim            \* primitives have no children in these models
    /\ Tick
    /\ IF Child(objs, p, n) # 0
       THEN err' = "dupchild" /\ UNCHANGED <<objs, wires, reg>>
       ELSE /\ objs' = Append([objs EXCEPT ![p].kids = Append(@, Len(objs) + 1)],
                              [parent |-> p, name |-> n, prim |-> prim, ins |-> <<>>, outs |-> <<>>, ios |-> <<>>, kids |-> <<>>])
            /\ reg' = Append(reg, <<>>)
            /\ err' = ""
            /\ UNCHANGED wires

AddIn(b, w) ==
    /\ Len(objs[b].ins) + Len(objs[b].outs) < MaxPorts
    /\ Tick
    /\ objs' = [objs EXCEPT ![b].ins = Append(@, w)]
    /\ wires' = IF objs[b].prim THEN [wires EXCEPT ![w].sinks = Append(@, b)] ELSE wires
    /\ err' = ""
    /\ UNCHANGED reg

AddOut(b, w) ==
    /\ Len(objs[b].ins) + Len(objs[b].outs) < MaxPorts
    /\ Tick
    /\ IF objs[b].prim /\ wires[w].source # 0
       THEN err' = "twodrivers" /\ UNCHANGED <<objs, wires, reg>>     \* the port is not appended
       ELSE /\ objs' = [objs EXCEPT ![b].outs = Append(@, w)]
            /\ wires' = IF objs[b].prim THEN [wires EXCEPT ![w].source = b] ELSE wires
            /\ err' = ""
            /\ UNCHANGED reg

\* an in/out port (Logic.addInOut): a primitive registers as source AND as sink of the wire; on an ordinary wire that already
\* has a driver the call raises before anything is registered.  A structural block only keeps the port.
AddInOut(b, w) ==
    /\ Len(objs[b].ins) + Len(objs[b].outs) + Len(objs[b].ios) < MaxPorts
    /\ Tick
    /\ IF objs[b].prim /\ wires[w].source # 0
       THEN err' = "twodrivers" /\ UNCHANGED <<objs, wires, reg>>
       ELSE /\ wires' = IF objs[b].prim THEN [wires EXCEPT ![w].source = b, ![w].sinks = Append(@, b)] ELSE wires
            /\ objs' = [objs EXCEPT ![b].ios = Append(@, w)]
            /\ err' = ""
            /\ UNCHANGED reg

\* rename / reparent / reparentAndRename: the wire is deleted from its old place first,
\* then appended to the new place; if the name is taken there the call raises and the
\* moved wire stays unregistered (as the code leaves it).  The earlier holder is untouched.
Move(w, p2, n) ==
    /\ Registered(w)
    /\ Tick
    /\ LET p1 == wires[w].parent
           r1 == [reg EXCEPT ![p1] = Remove(@, w)]
       IN  /\ wires' = [wires EXCEPT ![w].parent = p2, ![w].name = n]
           /\ IF Holder(r1, wires, p2, n) # 0
              THEN err' = "dupwire" /\ reg' = r1
              ELSE err' = "" /\ reg' = [r1 EXCEPT ![p2] = Append(@, w)]
    /\ UNCHANGED objs

Rename(w, n)   == Move(w, wires[w].parent, n)
Reparent(w, p) == ~objs[p].prim /\ Move(w, p, wires[w].name)
ReparentAndRename(w, p, n) == ~objs[p].prim /\ Move(w, p, n)

RECURSIVE BadBelow(_, _)
\* some port in the hierarchy below b is attached to a wire that nothing drives
BadBelow(b, depth) ==
    \/ \E w \in SeqRange(objs[b].ins) \cup SeqRange(objs[b].outs) : wires[w].source = 0
    \/ depth > 0 /\ \E c \in SeqRange(objs[b].kids) : BadBelow(c, depth - 1)

CheckIntegrity(b) ==
    /\ Tick
    /\ err' = IF BadBelow(b, MaxObjs) THEN "nosource" ELSE ""
    /\ UNCHANGED <<objs, wires, reg>>

BNext ==
    /\ calls < MaxCalls
    /\ \/ \E p \in Objs, n \in Names : ~objs[p].prim /\ NewWire(p, n)
       \/ \E p \in Objs, n \in Names, pr \in BOOLEAN : NewChild(p, n, pr)
       \/ \E b \in Objs, w \in WireIds : AddIn(b, w)
       \/ \E b \in Objs, w \in WireIds : AddOut(b, w)
       \/ \E b \in Objs, w \in WireIds : AddInOut(b, w)
       \/ \E w \in WireIds, n \in Names : Rename(w, n)
       \/ \E w \in WireIds, p \in Objs : Reparent(w, p)
       \/ \E w \in WireIds, p \in Objs, n \in Names : ReparentAndRename(w, p, n)
       \/ \E b \in Objs : CheckIntegrity(b)

\* ------------------------------------------------------------- properties
UniqueWireNames == \A p \in Objs : \A x, y \in 1..Len(reg[p]) : x # y => wires[reg[p][x]].name # wires[reg[p][y]].name
UniqueChildNames == \A p \in Objs : \A x, y \in 1..Len(objs[p].kids) : x # y => objs[objs[p].kids[x]].name # objs[objs[p].kids[y]].name
RegConsistent == \A p \in Objs : \A w \in SeqRange(reg[p]) : wires[w].parent = p
SourceIsDriver == \A w \in WireIds : wires[w].source # 0 =>
                      objs[wires[w].source].prim /\ w \in SeqRange(objs[wires[w].source].outs) \cup SeqRange(objs[wires[w].source].ios)

\* action properties
SingleDriver == [][\A w \in WireIds : wires[w].source # 0 => wires'[w].source = wires[w].source]_bvars

EarlierWireSurvives ==
    [][\A p \in Objs : \A n \in Names :
          LET h == Holder(reg, wires, p, n) IN
          h # 0 => \/ Holder(reg', wires', p, n) = h
                   \/ wires'[h].name # n \/ wires'[h].parent # p     \* it was itself moved by this call
      ]_bvars

EarlierChildSurvives ==
    [][\A p \in Objs : \A k \in 1..Len(objs[p].kids) : Len(objs'[p].kids) >= k /\ objs'[p].kids[k] = objs[p].kids[k]]_bvars

FailureChangesNothingElse ==
    [][err' \in {"dupchild", "twodrivers", "nosource"} => UNCHANGED <<objs, wires, reg>>]_bvars
=============================================================================
