------------------------------- MODULE Trace_Axi -------------------------------
(* C16, binding V: per-cycle observations of the real Axi2Reg / Reg2Axi under   *)
(* driven schedules, judged clause by clause (property layer), and compared     *)
(* with the implementation-shaped registers (MODEL-DRIFT only).                 *)
(*  trace = [which, init, steps]   step = [i |-> inputs, p |-> observation before the edge (inputs applied), o |-> after the edge] *)
(*  data values are symbolic indices (the harness maps them to bit patterns).   *)
EXTENDS Axi, Json, IOUtils

VARIABLES tid, l, s, m, g, bad
Traces == JsonDeserialize(IOEnv.TRACE_FILE)
T == Traces[tid]

Init == /\ tid \in 1..Len(Traces) /\ l = 1 /\ bad = FALSE /\ g = -1
        /\ s = Traces[tid].init       \* observation at power-up
        /\ m = Traces[tid].init       \* implementation-shaped model state

Say(kind, clause) == PrintT(ToJson(<<kind, tid, l, clause>>))

Step ==
    /\ ~bad /\ l <= Len(T.steps)
    /\ l' = l + 1 /\ tid' = tid
    /\ LET i == T.steps[l].i
           t == T.steps[l].o
           props == IF T.which = "A2R" THEN A2RProps(s, i, t) ELSE R2AProps(s, i, t, g)
           mt == IF T.which = "A2R" THEN A2RNext(m, i) ELSE R2ANext(m, i)
           pre == IF "p" \in DOMAIN T.steps[l]
                  THEN (IF T.which = "A2R" THEN A2RPreProps(s, i, T.steps[l].p) ELSE R2APreProps(s, i, T.steps[l].p))
                  ELSE [none |-> TRUE]
       IN  /\ s' = t
           /\ g' = IF T.which = "R2A" THEN R2AGhost(g, s, i) ELSE g
           /\ m' = t                   \* re-synchronise the model on the observation
           /\ IF ~AllTrue(pre) THEN bad' = TRUE /\ Say("V", FirstFalse(pre))
              ELSE IF ~AllTrue(props) THEN bad' = TRUE /\ Say("V", FirstFalse(props))
              ELSE /\ bad' = FALSE
                   /\ IF mt # t /\ m = s THEN Say("D", "registers") ELSE TRUE

Done == ~bad /\ l > Len(T.steps) /\ Say("J", "done") /\ FALSE
Next == Step \/ Done
=============================================================================
