------------------------------- MODULE Trace_Gen -------------------------------
(* C19, binding V: results of a replayed call history.                           *)
(*  trace = [results, sims]                                                      *)
(*   results = Seq([key, text, canon])  key = request (circuit, kind, block), text = id of the *)
(*             normalised answer, canon = id of the normalised answer to the same request made *)
(*             on a freshly built copy of the circuit with a fresh generator                   *)
(*   sims    = Seq([c, seen, ref]) outputs observed after each simulation step vs the outputs  *)
(*             of an identical circuit that is never asked for Verilog                          *)
EXTENDS Naturals, Sequences, TLC, Json, IOUtils
VARIABLES tid, done
Traces == JsonDeserialize(IOEnv.TRACE_FILE)
Init == tid \in 1..Len(Traces) /\ done = FALSE
Next == /\ ~done /\ done' = TRUE /\ tid' = tid
        /\ LET T == Traces[tid]
               badr == {k \in 1..Len(T.results) : T.results[k].text # T.results[k].canon}
               incons == {k \in 1..Len(T.results) : \E j \in 1..(k - 1) : T.results[j].key = T.results[k].key /\ T.results[j].text # T.results[k].text}
               bads == {k \in 1..Len(T.sims) : T.sims[k].seen # T.sims[k].ref}
           IN  IF badr # {} THEN PrintT(ToJson(<<"V", tid, "answer-depends-on-history", CHOOSE k \in badr : \A j \in badr : k <= j>>))
               ELSE IF incons # {} THEN PrintT(ToJson(<<"V", tid, "repeated-request-differs", CHOOSE k \in incons : TRUE>>))
               ELSE IF bads # {} THEN PrintT(ToJson(<<"V", tid, "simulation-altered-by-generation", CHOOSE k \in bads : TRUE>>))
               ELSE PrintT(ToJson(<<"J", tid, Len(T.results), Len(T.sims)>>))
=============================================================================
