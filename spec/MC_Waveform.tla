----------------------------- MODULE MC_Waveform -----------------------------
(* C15: the recorder watching a small design (a: 1-bit input, b: 2-bit input, *)
(* q = Reg(b)) through every watch list over {wire, same wire again, port     *)
(* alias}, every input history, clk(n) splitting, clear() and rendering       *)
(* request.  TLC checks one-sample-per-cycle, sample = pre-edge value, and    *)
(* that every rendering decodes back to the recording; each transition is     *)
(* printed with its history for replay on the real Waveform.                 *)
EXTENDS Waveform, Json

CONSTANTS WatchLists,   \* set of watch lists: sequences over {"a","b","q","pb","pq"}
          MaxCycles, MaxCalls, MaxN, EmitMod

VARIABLES watch, data, qv, cyc, calls, lastRender, hist, truth
\* truth = what each unique wire really carried going into each edge since the last clear
vars == <<watch, data, qv, cyc, calls, lastRender, hist, truth>>
View == <<watch, data, qv, cyc, calls, lastRender>>

WireOf(item) == CASE item \in {"a"} -> "a" [] item \in {"b", "pb"} -> "b" [] item \in {"q", "pq"} -> "q"
WidthOf(wr) == IF wr = "a" THEN 1 ELSE 2

RECURSIVE Uniq(_, _)
Uniq(items, acc) == IF items = <<>> THEN acc
                    ELSE LET w == WireOf(Head(items)) IN
                         Uniq(Tail(items), IF \E k \in 1..Len(acc) : acc[k] = w THEN acc ELSE Append(acc, w))
U == Uniq(watch, <<>>)
IdxOf(wr) == CHOOSE k \in 1..Len(U) : U[k] = wr

Init == /\ watch \in WatchLists
        /\ data = [k \in 1..Len(Uniq(watch, <<>>)) |-> <<>>]
        /\ truth = [k \in 1..Len(Uniq(watch, <<>>)) |-> <<>>]
        /\ qv = 0 /\ cyc = 0 /\ calls = 0 /\ lastRender = -1 /\ hist = <<>>

ValOf(wr, va, vb, q) == CASE wr = "a" -> va [] wr = "b" -> vb [] wr = "q" -> q

RECURSIVE Cycles(_, _, _, _, _)
\* n edges with inputs held at (va, vb): [d |-> data, q |-> register]
Cycles(d, q, va, vb, n) ==
    IF n = 0 THEN [d |-> d, q |-> q]
    ELSE Cycles(Sample(d, [k \in 1..Len(U) |-> ValOf(U[k], va, vb, q)]), vb, va, vb, n - 1)

Emit(call) == /\ hist' = Append(hist, call)
              /\ IF RandomElement(1..EmitMod) = 1 THEN PrintT(ToJson(<<"W", watch, Append(hist, call)>>)) ELSE TRUE

Clk(va, vb, n) ==
    /\ cyc + n <= MaxCycles
    /\ LET r == Cycles(data, qv, va, vb, n)
           t == Cycles(truth, qv, va, vb, n) IN
       /\ data' = r.d /\ qv' = r.q /\ truth' = t.d
    /\ cyc' = cyc + n
    /\ UNCHANGED <<watch, lastRender>>
    /\ Emit(<<"clk", va, vb, n>>)

DoClear ==
    /\ data' = Clear(data) /\ truth' = Clear(truth) /\ cyc' = 0
    /\ UNCHANGED <<watch, qv, lastRender>>
    /\ Emit(<<"clear">>)

DoRender ==
    /\ lastRender' = Len(data[1])
    /\ UNCHANGED <<watch, data, qv, cyc, truth>>
    /\ Emit(<<"render">>)

Next == /\ calls < MaxCalls /\ calls' = calls + 1
        /\ \/ \E va \in {0, 1}, vb \in 0..3, n \in 1..MaxN : Clk(va, vb, n)
           \/ DoClear
           \/ DoRender

\* ----------------------------------------------------------------- properties
OneSamplePerCycle == \A k \in 1..Len(data) : Len(data[k]) = cyc
SampleIsPreEdge == data = truth
RenderingDecodes ==
    \A i \in 1..Len(watch) :
        LET d == data[IdxOf(WireOf(watch[i]))]
            r == Render(d, WidthOf(WireOf(watch[i])))
        IN  Decode(r.wave, r.labels) = d /\ Span(r.wave) = cyc
=============================================================================
