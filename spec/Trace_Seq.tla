------------------------------ MODULE Trace_Seq ------------------------------
(* C09, binding V: input histories driven into the real sequential blocks     *)
(* from power-up, with the outputs observed before each edge (inputs applied, *)
(* combinational logic settled) and after it, judged step by step against     *)
(* the reference machines of SeqLib.                                          *)
(*   trace = [kind, c, iw, ow, steps]   step = inputs \o outs_before \o outs_after *)
EXTENDS SeqLib, Json, IOUtils, TLC

VARIABLES tid, l, s, bad
Traces == JsonDeserialize(IOEnv.TRACE_FILE)
T == Traces[tid]

Init == /\ tid \in 1..Len(Traces)
        /\ l = 1
        /\ bad = FALSE
        /\ s = SInit(Traces[tid].kind, Traces[tid].c, Traces[tid].iw, Traces[tid].ow)

Agree(exp, got) == \A k \in 1..Len(exp) : exp[k] = DC \/ exp[k] = got[k]

Step ==
    /\ ~bad /\ l <= Len(T.steps)
    /\ LET row == T.steps[l]
           ni == Len(T.iw)
           no == Len(T.ow)
           iv == SubSeq(row, 1, ni)
           pre == SubSeq(row, ni + 1, ni + no)
           post == SubSeq(row, ni + no + 1, ni + 2 * no)
           n == SNext(T.kind, T.c, s, iv, T.iw, T.ow)
           epre == SOut(T.kind, T.c, s, iv, T.iw, T.ow)
           epost == SOut(T.kind, T.c, n, iv, T.iw, T.ow)
       IN  /\ s' = n
           /\ l' = l + 1
           /\ tid' = tid
           /\ IF ~Agree(epre, pre) THEN bad' = TRUE /\ PrintT(ToJson(<<"V", tid, l, "before-edge", epre>>))
              ELSE IF ~Agree(epost, post) THEN bad' = TRUE /\ PrintT(ToJson(<<"V", tid, l, "after-edge", epost>>))
              ELSE bad' = FALSE

Done == ~bad /\ l > Len(T.steps) /\ PrintT(ToJson(<<"J", tid, Len(T.steps)>>)) /\ FALSE

Next == Step \/ Done
=============================================================================
