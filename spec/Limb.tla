--------------------------------- MODULE Limb ---------------------------------
(* Bit vectors wider than TLC's 32-bit integers: a value of width w is a       *)
(* little-endian sequence of NL(w) limbs in base 2^15 (top limb masked).       *)
(* Unsized Verilog literals are 32 bit wide, so almost every emitted           *)
(* expression has a 32-bit context: VerilogSem computes on these vectors.      *)
EXTENDS Bits, TLC

LB == 15
BASE == 32768
NL(w) == IF w <= 0 THEN 1 ELSE (w + LB - 1) \div LB
TopBits(w) == w - LB * (NL(w) - 1)

\* normalise a limb sequence to width w (truncate / zero extend)
\* TLCEval: TLC keeps [k \in S |-> e] as a lazy value whose body is re-evaluated at every application;
\* limb vectors are forced to concrete tuples once.
Norm(l, w) == TLCEval([k \in 1..NL(w) |->
                  LET x == IF k <= Len(l) THEN l[k] ELSE 0
                  IN  IF k = NL(w) THEN x % Pow2(TopBits(w)) ELSE x])

Zero(w) == TLCEval([k \in 1..NL(w) |-> 0])
Ones(w) == TLCEval([k \in 1..NL(w) |-> IF k = NL(w) THEN Pow2(TopBits(w)) - 1 ELSE BASE - 1])

RECURSIVE IntLimbs(_)
IntLimbs(x) == IF x < BASE THEN <<x>> ELSE <<x % BASE>> \o IntLimbs(x \div BASE)
FromInt(x, w) == Norm(IntLimbs(x), w)          \* x >= 0

RECURSIVE ToIntFrom(_, _)
ToIntFrom(l, k) == IF k > Len(l) THEN 0 ELSE l[k] + BASE * ToIntFrom(l, k + 1)
ToInt(l) == ToIntFrom(l, 1)                     \* only for values below 2^30
\* small = fits a TLC integer comfortably
IsSmall(l) == \A k \in 3..Len(l) : l[k] = 0
\* value capped at cap (for shift amounts and indices)
Capped(l, cap) == IF IsSmall(l) THEN Min(ToInt(SubSeq(l, 1, Min(2, Len(l)))), cap) ELSE cap

IsZero(l) == \A k \in 1..Len(l) : l[k] = 0
BitOf(l, i) == IF i \div LB + 1 > Len(l) THEN 0 ELSE BitAt(l[i \div LB + 1], i % LB)
MsbOf(l, w) == BitOf(l, w - 1)

\* bits [lo .. lo+n-1] of l as a vector of width n (bits beyond l read as 0)
Slice2(l, lo, n) ==
    LET q == lo \div LB
        r == lo % LB
    IN  Norm(TLCEval([k \in 1..NL(n) |->
                 LET a == IF k + q <= Len(l) THEN l[k + q] ELSE 0
                     b == IF k + q + 1 <= Len(l) THEN l[k + q + 1] ELSE 0
                 IN  (a \div Pow2(r)) + (b % Pow2(r)) * Pow2(LB - r)]), n)

\* extension to width w2: zero, or sign when sgn
Ext(l, w, w2, sgn) ==
    IF w2 <= w THEN Norm(l, w2)
    ELSE IF sgn /\ MsbOf(l, w) = 1
         THEN TLCEval([k \in 1..NL(w2) |->
                 LET x == IF k <= Len(l) THEN l[k] ELSE 0
                     fill == IF k < NL(w) THEN x
                             ELSE IF k = NL(w) THEN x + (BASE - Pow2(TopBits(w)))    \* ones above the top bit of this limb
                             ELSE BASE - 1
                 IN  IF k = NL(w2) THEN fill % Pow2(TopBits(w2)) ELSE fill])
         ELSE Norm(l, w2)

RECURSIVE AddC(_, _, _, _)
AddC(a, b, k, c) == IF k > Len(a) THEN <<>>
                    ELSE LET s == a[k] + b[k] + c IN <<s % BASE>> \o AddC(a, b, k + 1, s \div BASE)
Add(a, b, w) == Norm(AddC(a, b, 1, 0), w)
NotV(a, w) == Norm(TLCEval([k \in 1..Len(a) |-> BASE - 1 - a[k]]), w)
Neg(a, w) == Norm(AddC(NotV(a, w), Zero(w), 1, 1), w)
Sub(a, b, w) == Norm(AddC(a, NotV(b, w), 1, 1), w)

BitW(op(_, _, _), a, b, w) == Norm(TLCEval([k \in 1..Len(a) |-> op(a[k], b[k], LB)]), w)
AndV(a, b, w) == BitW(BAnd, a, b, w)
OrV(a, b, w) == BitW(BOr, a, b, w)
XorV(a, b, w) == BitW(BXor, a, b, w)

\* unsigned comparison: -1, 0, 1
RECURSIVE CmpFrom(_, _, _)
CmpFrom(a, b, k) == IF k = 0 THEN 0 ELSE IF a[k] < b[k] THEN -1 ELSE IF a[k] > b[k] THEN 1 ELSE CmpFrom(a, b, k - 1)
CmpU(a, b) == CmpFrom(a, b, Len(a))
CmpS(a, b, w) == IF MsbOf(a, w) # MsbOf(b, w) THEN (IF MsbOf(a, w) = 1 THEN -1 ELSE 1) ELSE CmpU(a, b)

\* shifts (n >= 0)
Shl2(a, n, w) ==
    IF n >= w THEN Zero(w)
    ELSE LET q == n \div LB
             r == n % LB
         IN  Norm(TLCEval([k \in 1..Len(a) |->
                      LET x == IF k - q >= 1 THEN a[k - q] ELSE 0
                          y == IF k - q - 1 >= 1 THEN a[k - q - 1] ELSE 0
                      IN  ((x % Pow2(LB - r)) * Pow2(r)) + (y \div Pow2(LB - r))]), w)
Shr2(a, n, w) == IF n >= w THEN Zero(w) ELSE Norm(Slice2(a, n, w), w)
Sar2(a, n, w) == IF MsbOf(a, w) = 0 THEN Shr2(a, n, w)
                 ELSE IF n >= w THEN Ones(w)
                 ELSE OrV(Shr2(a, n, w), Shl2(Ones(w), w - n, w), w)

\* multiplication modulo 2^w: rows a * b[i], each limb product below 2^30
RECURSIVE MulRow(_, _, _, _)
MulRow(a, d, k, c) == IF k > Len(a) THEN <<>>
                      ELSE LET p == a[k] * d + c IN <<p % BASE>> \o MulRow(a, d, k + 1, p \div BASE)
RECURSIVE MulFrom(_, _, _, _, _)
MulFrom(a, b, i, acc, w) ==
    IF i > Len(b) THEN acc
    ELSE MulFrom(a, b, i + 1, Add(acc, Shl2(Norm(MulRow(a, b[i], 1, 0), w), LB * (i - 1), w), w), w)
Mul(a, b, w) == MulFrom(a, b, 1, Zero(w), w)

\* unsigned long division: [q, r]
RECURSIVE DivFrom(_, _, _, _, _, _)
DivFrom(a, b, i, q, r, w) ==
    IF i < 0 THEN [q |-> q, r |-> r]
    ELSE LET r1 == OrV(Shl2(r, 1, w), FromInt(BitOf(a, i), w), w)
             ge == CmpU(r1, b) >= 0
         IN  DivFrom(a, b, i - 1,
                     IF ge THEN OrV(q, Shl2(FromInt(1, w), i, w), w) ELSE q,
                     IF ge THEN Sub(r1, b, w) ELSE r1, w)
DivU(a, b, w) == DivFrom(a, b, w - 1, Zero(w), Zero(w), w)

AbsV(a, w) == IF MsbOf(a, w) = 1 THEN Neg(a, w) ELSE a
DivS(a, b, w) == LET q == DivU(AbsV(a, w), AbsV(b, w), w).q
                 IN  IF MsbOf(a, w) # MsbOf(b, w) THEN Neg(q, w) ELSE q
ModS(a, b, w) == LET r == DivU(AbsV(a, w), AbsV(b, w), w).r
                 IN  IF MsbOf(a, w) = 1 THEN Neg(r, w) ELSE r

\* concatenation: parts = sequence of [l, w], first element most significant
RECURSIVE CatFrom(_, _, _, _)
CatFrom(parts, k, acc, accw) ==
    IF k = 0 THEN [l |-> acc, w |-> accw]
    ELSE LET p == parts[k]
             tw == accw + p.w
         IN  CatFrom(parts, k - 1, OrV(Norm(acc, tw), Shl2(Norm(p.l, tw), accw, tw), tw), tw)
Cat(parts) == LET last == parts[Len(parts)] IN CatFrom(parts, Len(parts) - 1, Norm(last.l, last.w), last.w)

\* ----------------------------------------------------------------- self test
LimbSanity(W) ==
    \A w \in W : \A x, y \in 0..(Pow2(w) - 1) :
        LET a == FromInt(x, w)
            b == FromInt(y, w)
        IN  /\ ToInt(Add(a, b, w)) = (x + y) % Pow2(w)
            /\ ToInt(Sub(a, b, w)) = (x - y) % Pow2(w)
            /\ ToInt(Mul(a, b, w)) = (x * y) % Pow2(w)
            /\ ToInt(AndV(a, b, w)) = BAnd(x, y, w) /\ ToInt(XorV(a, b, w)) = BXor(x, y, w)
            /\ ToInt(NotV(a, w)) = BNot(x, w) /\ ToInt(Neg(a, w)) = (-x) % Pow2(w)
            /\ (y # 0 => ToInt(DivU(a, b, w).q) = x \div y /\ ToInt(DivU(a, b, w).r) = x % y)
            /\ (CmpU(a, b) = -1) = (x < y) /\ (CmpS(a, b, w) = -1) = (ToSigned(x, w) < ToSigned(y, w))
            /\ \A n \in 0..(w + 1) : /\ ToInt(Shl2(a, n, w)) = (x * Pow2(n)) % Pow2(w)
                                     /\ ToInt(Shr2(a, n, w)) = x \div Pow2(n)
                                     /\ ToInt(Sar2(a, n, w)) = Sar(x, n, w)
            /\ ToInt(Ext(a, w, w + 17, TRUE)) = SignExt(x, w, w + 17)
            /\ ToInt(Cat(<<[l |-> a, w |-> w], [l |-> b, w |-> w]>>).l) = x * Pow2(w) + y
            /\ ToInt(Slice2(Cat(<<[l |-> a, w |-> w], [l |-> b, w |-> w]>>).l, w, w)) = x
=============================================================================
