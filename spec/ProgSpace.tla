------------------------------- MODULE ProgSpace -------------------------------
(* C02: the space of Python method bodies the Python-to-Verilog transpiler claims *)
(* to support, as a bounded grammar.  A program is a sequence of statements over  *)
(* two input ports a, b, one output port r, one integer state attribute s, one   *)
(* local t, one constructor argument k:                                          *)
(*   stmt ::= <<"assign", tgt, expr>>          tgt in {"t", "s", "r"}            *)
(*          | <<"aug", "s", binop, expr>>                                        *)
(*          | <<"if", cond, stmts, elifs, else>>   elifs = Seq(<<cond, stmts>>)  *)
(*          | <<"match", expr, cases, default>>    cases = Seq(<<const, stmts>>) *)
(*          | <<"matchc", expr, cases, default>>   same, default = capture pattern *)
(*   expr ::= <<"a">> | <<"b">> | <<"s">> | <<"t">> | <<"k">> | <<"c", n>>       *)
(*          | <<"un", op, expr>> | <<"bin", op, expr, expr>> | <<"tern", cond, expr, expr>> *)
(*          | <<"val", cond>>      a comparison or its negation in value position *)
(*   cond ::= <<"cmp", op, expr, expr>> | <<"and", cond, cond>> | <<"or", cond, cond>> *)
(*          | <<"cmp2", op1, expr, op2, expr, expr>>   chained comparison e1 op1 e2 op2 e3 *)
(*          | <<"not", cond>> | <<"truth", expr>>                                *)
(* Programs are drawn at random (RandomElement) so that one TLC run yields a      *)
(* reproducible (seeded) sample; the one-statement programs r := e over all      *)
(* depth-1 expressions are enumerated exhaustively.                              *)
EXTENDS Integers, Sequences, FiniteSets, TLC, Json

CONSTANTS NProg, Mode, UseTernary, UseMatch      \* Mode: "random" | "exhaustive"

Leaves == {<<"a">>, <<"b">>, <<"s">>, <<"t">>, <<"k">>, <<"c", 0>>, <<"c", 1>>, <<"c", 2>>, <<"c", 5>>, <<"c", 200>>}
Leaves0 == Leaves \ {<<"t">>}
BinOps == {"+", "-", "*", "//", "%", "&", "|", "^", "<<", ">>"}
UnOps == {"~", "-"}
CmpOps == {"==", "!=", "<", "<=", ">", ">="}

RECURSIVE RE(_, _), RC(_, _), Chain(_, _, _)
RE(d, L) ==
    LET c == RandomElement(1..10) IN
    IF d = 0 \/ c <= 3 THEN RandomElement(L)
    ELSE IF c <= 8 THEN <<"bin", RandomElement(BinOps), RE(d - 1, L), RE(d - 1, L)>>
    ELSE IF c = 9 THEN <<"un", RandomElement(UnOps), RE(d - 1, L)>>
    ELSE IF UseTernary THEN <<"tern", RC(d - 1, L), RE(d - 1, L), RE(d - 1, L)>>
    ELSE IF RandomElement(1..2) = 1 THEN <<"bin", "&", RE(d - 1, L), <<"c", 200>>>>
    \* a comparison (or its negation) used as a value: True / False become 1 / 0 on both sides
    ELSE IF RandomElement(1..3) = 1 THEN <<"val", <<"not", <<"cmp", RandomElement(CmpOps), RE(d - 1, L), RE(0, L)>>>>>>
    ELSE <<"val", <<"cmp", RandomElement(CmpOps), RE(d - 1, L), RE(0, L)>>>>
Chain(op, n, L) == IF n = 1 THEN <<"cmp", RandomElement(CmpOps), RE(0, L), RE(0, L)>>
                   ELSE <<op, <<"cmp", RandomElement(CmpOps), RE(0, L), RE(0, L)>>, Chain(op, n - 1, L)>>
RC(d, L) ==
    LET c == RandomElement(1..10) IN
    IF d = 0 \/ c <= 4 THEN <<"cmp", RandomElement(CmpOps), RE(d, L), RE(IF RandomElement(1..3) = 1 THEN 1 ELSE 0, L)>>
    \* a chain  x op y op z ...  of 3 to 6 operands with one operator (rendered without parentheses)
    ELSE IF c = 5 THEN Chain(RandomElement({"and", "or"}), RandomElement(3..6), L)
    ELSE IF c <= 7 THEN <<"and", RC(d - 1, L), RC(d - 1, L)>>
    ELSE IF c = 8 THEN <<"or", RC(d - 1, L), RC(d - 1, L)>>
    ELSE IF c = 9 THEN <<"not", RC(d - 1, L)>>
    ELSE <<"truth", RE(d, L)>>

RECURSIVE RS(_), RBlock(_, _)
RS(d) ==
    LET c == RandomElement(1..10) IN
    IF d = 0 \/ c <= 2 THEN <<"assign", "s", RE(2, Leaves)>>
    ELSE IF c <= 4 THEN <<"assign", "r", RE(2, Leaves)>>
    ELSE IF c = 5 THEN <<"aug", "s", RandomElement({"+", "-", "*", "&", "|", "^"}), RE(1, Leaves)>>
    ELSE IF c <= 8 THEN <<"if", RC(1, Leaves), RBlock(d - 1, RandomElement(1..2)),
                          IF RandomElement(1..3) = 1 THEN <<<<RC(1, Leaves), RBlock(d - 1, 1)>>>> ELSE <<>>,
                          IF RandomElement(1..2) = 1 THEN RBlock(d - 1, 1) ELSE <<>>>>
    \* "matchc": the catch-all case is a capture pattern (case other:) whose body starts with t = other
    ELSE IF UseMatch THEN <<IF RandomElement(1..4) = 1 THEN "matchc" ELSE "match", RE(1, Leaves),
                            <<<<0, RBlock(d - 1, 1)>>, <<1, RBlock(d - 1, 1)>>>>, RBlock(d - 1, 1)>>
    ELSE <<"assign", "t", RE(2, Leaves)>>
RBlock(d, n) == [k \in 1..n |-> RS(d)]

\* every random program defines the local first and assigns the output last
RProg(i) == <<<<"assign", "t", RE(2, Leaves0)>>>> \o RBlock(2, RandomElement(1..3)) \o <<<<"assign", "r", RE(2, Leaves)>>>>

\* exhaustive: r := e for every expression of depth <= 1 (no local)
E1 == Leaves0 \cup {<<"bin", op, x, y>> : op \in BinOps, x \in Leaves0, y \in Leaves0} \cup {<<"un", op, x>> : op \in UnOps, x \in Leaves0}
      \cup {<<"val", <<"cmp", op, x, y>>>> : op \in CmpOps, x \in {<<"a">>, <<"s">>, <<"c", 2>>}, y \in {<<"b">>, <<"k">>, <<"c", 1>>}}
      \cup {<<"val", <<"not", <<"cmp", op, <<"a">>, <<"b">>>>>>>> : op \in CmpOps}

\* precedence / associativity shapes: r := x op1 (y op2 z)  and  r := (x op1 y) op2 z  for every operator pair
Nest == {<<"bin", o1, <<"a">>, <<"bin", o2, <<"b">>, <<"c", 2>>>>>> : o1 \in BinOps, o2 \in BinOps}
        \cup {<<"bin", o2, <<"bin", o1, <<"a">>, <<"b">>>>, <<"c", 2>>>> : o1 \in BinOps, o2 \in BinOps}
        \cup {<<"bin", o1, <<"un", u, <<"a">>>>, <<"b">>>> : o1 \in BinOps, u \in UnOps}
        \cup {<<"un", u, <<"bin", o1, <<"a">>, <<"b">>>>>> : o1 \in BinOps, u \in UnOps}
        \* a comparison whose right (left) operand is itself an operation: Python's bitwise operators bind tighter than its
        \* comparisons, Verilog's == binds tighter than & | ^
        \cup {<<"val", <<"cmp", c, <<"a">>, <<"bin", o, <<"b">>, <<"c", 1>>>>>>>> : c \in CmpOps, o \in BinOps}
        \cup {<<"val", <<"cmp", c, <<"bin", o, <<"a">>, <<"c", 2>>>>, <<"b">>>>>> : c \in CmpOps, o \in BinOps}

\* chains of one logical operator over the bits of a:  (a & 1) != 0 op (a & 2) != 0 op ...  (n operands): with a swept over
\* 0 .. 2^n - 1 every operand is decisive for some input
RECURSIVE Pw2Aux(_)
Pw2Aux(k) == IF k = 0 THEN 1 ELSE 2 * Pw2Aux(k - 1)
BitCond(k) == <<"cmp", "!=", <<"bin", "&", <<"a">>, <<"c", Pw2Aux(k)>>>>, <<"c", 0>>>>
RECURSIVE BitChain(_, _, _)
BitChain(op, k, n) == IF k = n - 1 THEN BitCond(k) ELSE <<op, BitCond(k), BitChain(op, k + 1, n)>>
ChainProgs == {<<<<"if", BitChain(op, 0, n), <<<<"assign", "r", <<"c", 1>>>>>>, <<>>, <<<<"assign", "r", <<"c", 0>>>>>>>>>> :
                 op \in {"and", "or"}, n \in 3..7}
              \cup {<<<<"assign", "r", <<"c", 0>>>>,
                     <<"if", <<"not", BitChain(op, 0, n)>>, <<<<"assign", "r", <<"c", 2>>>>>>, <<>>, <<>>>>>> : op \in {"and", "or"}, n \in {3, 5}}

\* a match whose catch-all case is a capture pattern (case other:) and whose body reads the captured value
CapProgs == {<<<<"assign", "t", <<"c", 0>>>>,
               <<"matchc", subj, <<<<0, <<<<"assign", "r", <<"c", 1>>>>>>>>, <<1, <<<<"assign", "r", <<"c", 5>>>>>>>>>>,
                 <<<<"assign", "r", <<"bin", "+", <<"t">>, <<"c", 1>>>>>>>>>>>> :
               subj \in {<<"a">>, <<"bin", "&", <<"a">>, <<"c", 5>>>>, <<"b">>}}

\* chained comparisons (lo <= a < hi) and logical operators over multi-bit operands taken as truth values
IfR(c) == <<<<"if", c, <<<<"assign", "r", <<"c", 1>>>>>>, <<>>, <<<<"assign", "r", <<"c", 0>>>>>>>>>>
MiscCondProgs ==
    {IfR(<<"cmp2", o1, <<"c", 2>>, o2, <<"a">>, <<"c", 5>>>>) : o1 \in {"<", "<="}, o2 \in {"<", "<=", "=="}}
    \cup {IfR(<<"cmp2", "<", <<"b">>, "<=", <<"a">>, <<"k">>>>)}
    \cup {IfR(<<op, <<"truth", x>>, <<"truth", y>>>>) : op \in {"and", "or"},
              x \in {<<"a">>, <<"bin", "&", <<"a">>, <<"c", 5>>>>}, y \in {<<"b">>, <<"k">>, <<"bin", "&", <<"a">>, <<"c", 2>>>>}}
    \cup {IfR(<<"and", <<"truth", <<"a">>>>, <<"and", <<"truth", <<"b">>>>, <<"cmp", "<", <<"a">>, <<"c", 200>>>>>>>>)}

VARIABLES id, prog, kind
Init == IF Mode = "random"
        THEN /\ id \in 1..NProg /\ kind = (IF id % 3 = 0 THEN "propagate" ELSE "clock") /\ prog = RProg(id)
        ELSE IF Mode = "chains"
        THEN /\ id = 0 /\ kind \in {"clock", "propagate"} /\ prog \in (ChainProgs \cup CapProgs \cup MiscCondProgs)
        ELSE IF Mode = "nesting"
        THEN /\ id = 0 /\ kind = "propagate" /\ \E e \in Nest : prog = <<<<"assign", "r", e>>>>
        ELSE /\ id = 0 /\ kind \in {"clock", "propagate"} /\ \E e \in E1 : prog = <<<<"assign", "r", e>>>>
Next == /\ id >= 0 /\ id' = -1 /\ UNCHANGED <<prog, kind>>
        /\ PrintT(ToJson(<<"R", id, kind, prog>>))
=============================================================================
