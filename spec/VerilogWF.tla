------------------------------ MODULE VerilogWF ------------------------------
(* Static semantics of an emitted Verilog file (C03): the text is a closed,   *)
(* legal design.  The file arrives as the JSON AST produced by the syntax-only *)
(* front end (harness/vparse.py); every rule below is evaluated by TLC.        *)
(*                                                                            *)
(*   F.modules : sequence of module ASTs                                      *)
(*   F.ext     : names of declared external black boxes                        *)
(*   F.iface   : interface of every live object emitted as a module:           *)
(*               [mod, ports |-> Seq([n, dir, w])]   (from the py4hw objects)  *)
(* A finding is <<rule, module name, identifier/instance>>.                    *)
EXTENDS Naturals, Integers, Sequences, FiniteSets, TLC

Reserved == {"always", "and", "assign", "automatic", "begin", "buf", "bufif0", "bufif1", "case", "casex", "casez", "cell",
             "cmos", "config", "deassign", "default", "defparam", "design", "disable", "edge", "else", "end", "endcase",
             "endconfig", "endfunction", "endgenerate", "endmodule", "endprimitive", "endspecify", "endtable", "endtask",
             "event", "for", "force", "forever", "fork", "function", "generate", "genvar", "highz0", "highz1", "if",
             "ifnone", "incdir", "include", "initial", "inout", "input", "instance", "integer", "join", "large", "liblist",
             "library", "localparam", "macromodule", "medium", "module", "nand", "negedge", "nmos", "nor",
             "noshowcancelled", "not", "notif0", "notif1", "or", "output", "parameter", "pmos", "posedge", "primitive",
             "pull0", "pull1", "pulldown", "pullup", "pulsestyle_onevent", "pulsestyle_ondetect", "rcmos", "real",
             "realtime", "reg", "release", "repeat", "rnmos", "rpmos", "rtran", "rtranif0", "rtranif1", "scalared",
             "showcancelled", "signed", "small", "specify", "specparam", "strong0", "strong1", "supply0", "supply1",
             "table", "task", "time", "tran", "tranif0", "tranif1", "tri", "tri0", "tri1", "triand", "trior", "trireg",
             "unsigned", "use", "uwire", "vectored", "wait", "wand", "weak0", "weak1", "while", "wire", "wor", "xnor", "xor"}

SeqRange(s) == {s[k] : k \in 1..Len(s)}
RECURSIVE Flat(_)
Flat(ss) == IF ss = <<>> THEN <<>> ELSE Head(ss) \o Flat(Tail(ss))

\* ---------------------------------------------------------------- identifiers read by an expression
RECURSIVE Ids(_)
Ids(e) ==
    CASE e.k = "id" -> {e.n}
      [] e.k = "num" -> {}
      [] e.k = "un" -> Ids(e.a)
      [] e.k = "bin" -> Ids(e.a) \cup Ids(e.b)
      [] e.k = "tern" -> Ids(e.c) \cup Ids(e.a) \cup Ids(e.b)
      [] e.k = "bit" -> {e.n} \cup Ids(e.i)
      [] e.k = "bit2" -> {e.n} \cup Ids(e.i) \cup Ids(e.j)
      [] e.k = "part" -> {e.n} \cup Ids(e.h) \cup Ids(e.l)
      [] e.k = "cat" -> UNION {Ids(e.xs[k]) : k \in 1..Len(e.xs)}
      [] e.k = "rep" -> Ids(e.n) \cup Ids(e.x)
      [] e.k = "call" -> Ids(e.a)

\* names written by an lvalue / indices read by it
RECURSIVE LvNames(_)
LvNames(l) == IF l.k = "cat" THEN UNION {LvNames(l.xs[k]) : k \in 1..Len(l.xs)} ELSE {l.n}
RECURSIVE LvReads(_)
LvReads(l) == CASE l.k = "cat" -> UNION {LvReads(l.xs[k]) : k \in 1..Len(l.xs)}
                [] l.k = "bit" -> Ids(l.i) [] l.k = "bit2" -> Ids(l.i) \cup Ids(l.j)
                [] l.k = "part" -> Ids(l.h) \cup Ids(l.l) [] OTHER -> {}

RECURSIVE StReads(_)
StReads(s) ==
    CASE s.k = "block" -> UNION {StReads(s.xs[k]) : k \in 1..Len(s.xs)}
      [] s.k = "if" -> Ids(s.c) \cup StReads(s.t) \cup (IF s.e = <<>> THEN {} ELSE StReads(s.e[1]))
      [] s.k = "case" -> Ids(s.x) \cup UNION {StReads(s.items[k].s) \cup UNION {Ids(s.items[k].m[j]) : j \in 1..Len(s.items[k].m)}
                                               : k \in 1..Len(s.items)}
                         \cup (IF s.d = <<>> THEN {} ELSE StReads(s.d[1]))
      [] s.k \in {"ba", "nba"} -> Ids(s.r) \cup LvReads(s.l)
      [] OTHER -> {}
RECURSIVE StWrites(_)
StWrites(s) ==
    CASE s.k = "block" -> UNION {StWrites(s.xs[k]) : k \in 1..Len(s.xs)}
      [] s.k = "if" -> StWrites(s.t) \cup (IF s.e = <<>> THEN {} ELSE StWrites(s.e[1]))
      [] s.k = "case" -> UNION {StWrites(s.items[k].s) : k \in 1..Len(s.items)} \cup (IF s.d = <<>> THEN {} ELSE StWrites(s.d[1]))
      [] s.k \in {"ba", "nba"} -> LvNames(s.l)
      [] OTHER -> {}

\* ---------------------------------------------------------------------- per module
PortNames(m) == [k \in 1..Len(m.ports) |-> m.ports[k].n]
DeclNames(m) == [k \in 1..Len(m.decls) |-> m.decls[k].n]
ParamNames(m) == [k \in 1..Len(m.params) |-> m.params[k].n]
InstNames(m) == [k \in 1..Len(m.insts) |-> m.insts[k].name]
AllNames(m) == PortNames(m) \o DeclNames(m) \o ParamNames(m) \o InstNames(m)
Declared(m) == SeqRange(PortNames(m)) \cup SeqRange(DeclNames(m)) \cup SeqRange(ParamNames(m))

Dups(s) == {s[x] : x \in {x \in 1..Len(s) : \E y \in 1..Len(s) : y # x /\ s[y] = s[x]}}

Reads(m) ==
    UNION {Ids(m.assigns[k].r) \cup LvReads(m.assigns[k].l) : k \in 1..Len(m.assigns)}
    \cup UNION {StReads(m.always[k].body) \cup (IF m.always[k].clk = "" THEN {} ELSE {m.always[k].clk}) : k \in 1..Len(m.always)}
    \cup UNION {StReads(m.initials[k]) : k \in 1..Len(m.initials)}
    \cup UNION {UNION {IF m.insts[k].conns[j].e = <<>> THEN {} ELSE Ids(m.insts[k].conns[j].e[1]) : j \in 1..Len(m.insts[k].conns)}
                : k \in 1..Len(m.insts)}
    \cup UNION {UNION {Ids(m.insts[k].params[j].v) : j \in 1..Len(m.insts[k].params)} : k \in 1..Len(m.insts)}
    \cup UNION {IF m.decls[k].init = <<>> THEN {} ELSE Ids(m.decls[k].init[1]) : k \in 1..Len(m.decls)}
Writes(m) ==
    UNION {LvNames(m.assigns[k].l) : k \in 1..Len(m.assigns)}
    \cup UNION {StWrites(m.always[k].body) : k \in 1..Len(m.always)}
    \cup UNION {StWrites(m.initials[k]) : k \in 1..Len(m.initials)}

Def(F, name) == IF \E k \in 1..Len(F.modules) : F.modules[k].name = name
                THEN <<F.modules[CHOOSE k \in 1..Len(F.modules) : F.modules[k].name = name]>> ELSE <<>>
PortOf(d, p) == IF \E k \in 1..Len(d.ports) : d.ports[k].n = p
                THEN <<d.ports[CHOOSE k \in 1..Len(d.ports) : d.ports[k].n = p]>> ELSE <<>>

KindOf(m, n) ==     \* "input" | "output" | "outreg" | "inout" | "wire" | "reg" | "integer" | "param" | "none"
    IF \E k \in 1..Len(m.ports) : m.ports[k].n = n
    THEN LET p == m.ports[CHOOSE k \in 1..Len(m.ports) : m.ports[k].n = n]
         IN  IF p.dir = "output" /\ p.reg = 1 THEN "outreg" ELSE p.dir
    ELSE IF \E k \in 1..Len(m.decls) : m.decls[k].n = n
    THEN m.decls[CHOOSE k \in 1..Len(m.decls) : m.decls[k].n = n].kind
    ELSE IF n \in SeqRange(ParamNames(m)) THEN "param" ELSE "none"

IsArray(m, n) == \E k \in 1..Len(m.decls) : m.decls[k].n = n /\ m.decls[k].arr # <<>>

WidthOf(m, n) ==
    IF \E k \in 1..Len(m.ports) : m.ports[k].n = n
    THEN LET p == m.ports[CHOOSE k \in 1..Len(m.ports) : m.ports[k].n = n] IN p.h - p.l + 1
    ELSE IF \E k \in 1..Len(m.decls) : m.decls[k].n = n
    THEN LET d == m.decls[CHOOSE k \in 1..Len(m.decls) : m.decls[k].n = n] IN d.h - d.l + 1
    ELSE 0

\* drivers of a net inside module m: continuous assignments, instance outputs (by the definition's port direction)
AssignDrivers(m, n) == {<<"assign", k>> : k \in {k \in 1..Len(m.assigns) : n \in LvNames(m.assigns[k].l)}}
InstDrivers(F, m, n) ==
    UNION {{<<"inst", k, j>> : j \in {j \in 1..Len(m.insts[k].conns) :
                LET c == m.insts[k].conns[j]
                    d == Def(F, m.insts[k].mod)
                IN  /\ c.e # <<>> /\ c.e[1].k \in {"id", "bit", "part"} /\ c.e[1].n = n
                    /\ d # <<>> /\ PortOf(d[1], c.p) # <<>> /\ PortOf(d[1], c.p)[1].dir \in {"output", "inout"}}}
           : k \in 1..Len(m.insts)}
AlwaysWriters(m, n) == {k \in 1..Len(m.always) : n \in StWrites(m.always[k].body)}

\* whole-net assigns only count as conflicting when two of them cover the net without a select
WholeAssigns(m, n) == {k \in 1..Len(m.assigns) : m.assigns[k].l.k = "id" /\ m.assigns[k].l.n = n}

ModuleFindings(F, m) ==
    {<<"declared-twice", m.name, n>> : n \in Dups(AllNames(m))}
    \cup {<<"reserved-word", m.name, n>> : n \in SeqRange(AllNames(m)) \cap Reserved}
    \cup (IF m.name \in Reserved THEN {<<"reserved-word", m.name, m.name>>} ELSE {})
    \cup {<<"undeclared-identifier", m.name, n>> : n \in (Reads(m) \cup Writes(m)) \ Declared(m)}
    \cup {<<"undefined-module", m.name, m.insts[k].mod>> :
              k \in {k \in 1..Len(m.insts) : Def(F, m.insts[k].mod) = <<>> /\ m.insts[k].mod \notin SeqRange(F.ext)}}
    \cup UNION {LET i == m.insts[k]
                    d == Def(F, i.mod)
                IN  IF d = <<>> THEN {}
                    ELSE {<<"no-such-port", m.name, i.name>> : j \in {j \in 1..Len(i.conns) : PortOf(d[1], i.conns[j].p) = <<>>}}
                         \cup {<<"port-connected-twice", m.name, i.name>> : p \in Dups([j \in 1..Len(i.conns) |-> i.conns[j].p])}
                         \cup {<<"port-width-mismatch", m.name, i.name>> :
                                  j \in {j \in 1..Len(i.conns) :
                                           /\ PortOf(d[1], i.conns[j].p) # <<>> /\ i.conns[j].e # <<>> /\ i.conns[j].e[1].k = "id"
                                           /\ WidthOf(m, i.conns[j].e[1].n) # 0
                                           /\ WidthOf(m, i.conns[j].e[1].n)
                                              # PortOf(d[1], i.conns[j].p)[1].h - PortOf(d[1], i.conns[j].p)[1].l + 1}}
                         \cup {<<"output-port-to-non-net", m.name, i.name>> :
                                  j \in {j \in 1..Len(i.conns) :
                                           /\ PortOf(d[1], i.conns[j].p) # <<>> /\ PortOf(d[1], i.conns[j].p)[1].dir = "output"
                                           /\ i.conns[j].e # <<>>
                                           /\ \/ i.conns[j].e[1].k \notin {"id", "bit", "part", "cat"}
                                              \/ (i.conns[j].e[1].k = "id" /\ KindOf(m, i.conns[j].e[1].n) \in {"reg", "integer", "outreg", "input", "param"})}}
                         \cup {<<"no-such-parameter", m.name, i.name>> :
                                  j \in {j \in 1..Len(i.params) : i.params[j].n \notin SeqRange(ParamNames(d[1]))}}
                : k \in 1..Len(m.insts)}
    \cup {<<"multiple-drivers", m.name, n>> :
              n \in {n \in Declared(m) : /\ KindOf(m, n) \in {"wire", "output", "inout"}
                                        /\ Cardinality(WholeAssigns(m, n)) + Cardinality(InstDrivers(F, m, n))
                                           + (IF KindOf(m, n) = "input" THEN 1 ELSE 0) > 1}}
    \cup {<<"input-port-driven", m.name, n>> :
              n \in {n \in Declared(m) : KindOf(m, n) = "input" /\ (AssignDrivers(m, n) # {} \/ InstDrivers(F, m, n) # {} \/ AlwaysWriters(m, n) # {})}}
    \cup {<<"net-without-driver", m.name, n>> :
              n \in {n \in Declared(m) : /\ KindOf(m, n) \in {"wire", "output"}
                                        /\ (n \in Reads(m) \/ KindOf(m, n) = "output")
                                        /\ AssignDrivers(m, n) = {} /\ InstDrivers(F, m, n) = {}}}
    \cup {<<"procedural-assignment-to-net", m.name, n>> :
              n \in {n \in Declared(m) : KindOf(m, n) \in {"wire", "output", "input", "inout"} /\ AlwaysWriters(m, n) # {}}}
    \cup {<<"continuous-assignment-to-variable", m.name, n>> :
              n \in {n \in Declared(m) : KindOf(m, n) \in {"reg", "integer", "outreg"} /\ (AssignDrivers(m, n) # {} \/ InstDrivers(F, m, n) # {})}}
    \* (a memory array may be written from one always block per port: different processes write different words)
    \cup {<<"variable-written-by-two-always", m.name, n>> :
              n \in {n \in Declared(m) : KindOf(m, n) \in {"reg", "integer", "outreg"} /\ ~IsArray(m, n)
                                          /\ Cardinality(AlwaysWriters(m, n)) > 1}}

\* interface of a definition as [n, dir, w] records, clock excluded (the implicit clock port is added by the emitter)
DefIface(d) == [k \in 1..Len(d.ports) |-> [n |-> d.ports[k].n, dir |-> d.ports[k].dir, w |-> d.ports[k].h - d.ports[k].l + 1]]

FileFindings(F) ==
    {<<"module-defined-twice", n, n>> : n \in Dups([k \in 1..Len(F.modules) |-> F.modules[k].name])}
    \cup UNION {ModuleFindings(F, F.modules[k]) : k \in 1..Len(F.modules)}
    \* objects emitted under one module name must agree with each other and with the emitted definition
    \cup {<<"shared-name-not-interchangeable", F.iface[x].mod, F.iface[x].path>> :
              x \in {x \in 1..Len(F.iface) :
                        \/ \E y \in 1..Len(F.iface) : y < x /\ F.iface[y].mod = F.iface[x].mod /\ F.iface[y].ports # F.iface[x].ports
                        \/ /\ Def(F, F.iface[x].mod) # <<>>
                           /\ LET di == DefIface(Def(F, F.iface[x].mod)[1])
                              IN  \E k \in 1..Len(F.iface[x].ports) :
                                     ~\E j \in 1..Len(di) : di[j] = F.iface[x].ports[k]}}
=============================================================================
