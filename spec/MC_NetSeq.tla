------------------------------- MODULE MC_NetSeq -------------------------------
(* C09, binding X: product of the leaf netlist that a sequential library block   *)
(* really consists of (extracted, executed by the Kernel) with its reference     *)
(* state machine (SeqLib).  Inputs are chosen nondeterministically at every      *)
(* edge, so TLC visits every reachable product state: the outputs agree after    *)
(* every edge of EVERY input history of unbounded length.                        *)
(*   Cfgs[k] = [kind, c, iw, ow, net, order, ins, outs]                          *)
EXTENDS Kernel, Json, IOUtils

Ref == INSTANCE SeqLib

VARIABLES cid, rs, ok,
          hist        \* inputs applied so far (hidden by View): the witness history of a disagreement
Cfgs == JsonDeserialize(IOEnv.CFG_FILE)
C == Cfgs[cid]

RECURSIVE AllVals(_)
AllVals(ws) == IF ws = <<>> THEN {<<>>}
               ELSE {<<v>> \o r : v \in 0..(Pow2(Head(ws)) - 1), r \in AllVals(Tail(ws))}

Init ==
    /\ cid \in 1..Len(Cfgs)
    /\ rs = Ref!SInit(Cfgs[cid].kind, Cfgs[cid].c, Cfgs[cid].iw, Cfgs[cid].ow)
    /\ ok = TRUE
    /\ hist = <<>>
    /\ KInit(Cfgs[cid].net, [w \in 1..Len(Cfgs[cid].net.width) |-> 0])

Agree(exp, got) == \A k \in 1..Len(exp) : exp[k] = Ref!DC \/ exp[k] = got[k]
Outs(v) == [k \in 1..Len(C.outs) |-> v[C.outs[k]]]
Poked(v, iv) == [w \in 1..Len(v) |-> IF \E k \in 1..Len(C.ins) : C.ins[k] = w
                                     THEN iv[CHOOSE k \in 1..Len(C.ins) : C.ins[k] = w] ELSE v[w]]

\* <<"V", cid, phase, input history, expected, got>>; the branch stops at the first disagreement
Cmp(ph, s, iv, exp, got) == Agree(exp, got) \/ ~PrintT(ToJson(<<"V", cid, ph, Append(hist, iv), exp, got>>))
StepWith(iv, v0, c, n) ==
    \* every step pokes all inputs and propagates, so the values left on the input wires (and on the wires computed from
    \* them) do not influence what follows: they are normalised to the all-zero input, which keeps the product graph
    \* at |reachable states| instead of |reachable states| * |input vectors|
    /\ val' = PropAll(Poked(c.v, [k \in 1..Len(C.iw) |-> 0]), C.order) /\ st' = c.s /\ rs' = n /\ hist' = Append(hist, iv)
    /\ ok' = /\ Cmp("before", rs, iv, Ref!SOut(C.kind, C.c, rs, iv, C.iw, C.ow), Outs(v0))
             /\ Cmp("after", n, iv, Ref!SOut(C.kind, C.c, n, iv, C.iw, C.ow), Outs(c.v))
StepIn(iv, v0) == StepWith(iv, v0, CycleRef(v0, st, C.order), Ref!SNext(C.kind, C.c, rs, iv, C.iw, C.ow))

Next ==
    /\ ok
    /\ \E iv \in AllVals(C.iw) : StepIn(iv, PropAll(Poked(val, iv), C.order))
    /\ cycles' = 1
    /\ UNCHANGED <<net, nxt, prepared, order, pc, passes, pendD, pendL, budget, pre, skipped, taint, dirty, cid>>

View == <<cid, val, st, rs, ok, cycles>>
Done == (cycles = 0) => PrintT(ToJson(<<"J", cid>>))
=============================================================================
