----------------------------- MODULE Trace_Comb -----------------------------
(* C07 / C08 / C14, binding V: truth tables recorded from the real simulator  *)
(* (inputs poked on undriven wires, outputs read after clk) are judged row by *)
(* row against Library!CombRef.                                               *)
(*   table = [kind, c, iw, ow, full, rows]   row = inputs \o outputs          *)
EXTENDS Library, LibraryWide, Json, IOUtils, TLC

VARIABLES tid, done
Tables == JsonDeserialize(IOEnv.TRACE_FILE)

Init == tid \in 1..Len(Tables) /\ done = FALSE

RowBad(t, row) ==
    LET ni == Len(t.iw)
        iv == SubSeq(row, 1, ni)
        ov == SubSeq(row, ni + 1, Len(row))
        exp == CombRefA(t.kind, t.c, iv, t.iw, t.ow)
    IN  \/ Len(exp) # Len(ov)
        \/ \E k \in 1..Len(ov) : exp[k] # DC /\ exp[k] # ov[k]

Expected(t, row) == CombRefA(t.kind, t.c, SubSeq(row, 1, Len(t.iw)), t.iw, t.ow)

Constrained(t, row) == \E k \in 1..Len(t.ow) : Expected(t, row)[k] # DC

\* the limb-vector references (LibraryWide, used beyond 30 bits) agree with the integer ones on this row
SameOut(x, y, w) == IF x = WDC \/ y = WDC THEN x = y ELSE Norm(x, w) = Norm(y, w)
RefsAgreeWith(t, a, b) == Len(a) = Len(b) /\ \A k \in 1..Len(a) : SameOut(a[k], b[k], t.ow[k])
RefsAgree(t, row) ==
    LET iv == SubSeq(row, 1, Len(t.iw))
    IN  RefsAgreeWith(t, AsWide(CombRefA(t.kind, t.c, iv, t.iw, t.ow), t.ow), WideOfInts(t.kind, t.c, iv, t.iw, t.ow))

RECURSIVE Prod(_)
Prod(ws) == IF ws = <<>> THEN 1 ELSE Pow2(Head(ws)) * Prod(Tail(ws))

Judge ==
    /\ ~done
    /\ done' = TRUE
    /\ UNCHANGED tid
    /\ LET t == Tables[tid]
           bad == {r \in 1..Len(t.rows) : RowBad(t, t.rows[r])}
           nc == Cardinality({r \in 1..Len(t.rows) : Constrained(t, t.rows[r])})
       IN  /\ IF t.kind \in WideKinds /\ Len(t.rows) <= 300 /\ \E r \in 1..Len(t.rows) : ~RefsAgree(t, t.rows[r])
              THEN PrintT(ToJson(<<"R", tid, CHOOSE r \in 1..Len(t.rows) : ~RefsAgree(t, t.rows[r])>>)) ELSE TRUE
           /\ IF t.full = 1 /\ Len(t.rows) # Prod(t.iw)
              THEN PrintT(ToJson(<<"C", tid, Len(t.rows), Prod(t.iw)>>)) ELSE TRUE
           /\ IF bad = {} THEN PrintT(ToJson(<<"J", tid, Len(t.rows), nc>>))
              ELSE LET r == CHOOSE r \in bad : \A q \in bad : r <= q
                   IN  PrintT(ToJson(<<"V", tid, r, Expected(t, t.rows[r]), Cardinality(bad)>>))

Next == Judge
=============================================================================
