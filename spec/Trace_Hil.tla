------------------------------- MODULE Trace_Hil -------------------------------
(* C20, binding V: per-cycle recordings of the real CMDRequest / CMDResponse.    *)
(*  req  trace = [mode |-> "req", steps]   step = [valid, c, o, fsm]             *)
(*       o = decoder outputs after the edge, fsm = [state, temp, newc]          *)
(*  resp trace = [mode |-> "resp", vin, size, steps]  step = [start, ready, o, fsm] *)
(*       o = [valid, v] after the edge, fsm = [state, temp, tsize, aux]          *)
(* Characters taken / emitted are reconstructed from the handshakes and judged   *)
(* against Parse / Response; the FSM registers are compared with the             *)
(* implementation-shaped model (MODEL-DRIFT only).                              *)
EXTENDS HilCmd, Json, IOUtils

VARIABLES tid, l, po, taken, acts, out, m, bad
Traces == JsonDeserialize(IOEnv.TRACE_FILE)
T == Traces[tid]

Init == /\ tid \in 1..Len(Traces) /\ l = 1 /\ bad = FALSE
        /\ taken = <<>> /\ acts = <<>> /\ out = <<>>
        /\ po = IF Traces[tid].mode = "req" THEN ReqOut0 ELSE [valid |-> 0, v |-> 0]
        /\ m = IF Traces[tid].mode = "req" THEN ReqInit ELSE RespInit

Say(kind, clause, detail) == PrintT(ToJson(<<kind, tid, l, clause, detail>>))

ReqStep ==
    /\ T.mode = "req"
    /\ LET st == T.steps[l]
           tk == IF po.ready = 1 /\ st.valid = 1 THEN Append(taken, st.c) ELSE taken
           ac == acts \o EventsAt(po, st.o)
           mn == IF m.temp < 67108864 THEN ReqNext(m, st.valid, st.c) ELSE m    \* no drift comparison beyond 2^26
       IN  /\ taken' = tk /\ acts' = ac /\ po' = st.o /\ out' = out
           /\ m' = [state |-> st.fsm.state, temp |-> st.fsm.temp, newc |-> st.fsm.newc, o |-> st.o]
           /\ IF ~IsPrefix(ac, Parse(tk)) THEN bad' = TRUE /\ Say("V", "spurious-or-wrong-action", ac)
              ELSE /\ bad' = FALSE
                   /\ IF m.temp < 67108864 /\ mn # m' THEN Say("D", "request-fsm", 0) ELSE TRUE

RespStep ==
    /\ T.mode = "resp"
    /\ LET st == T.steps[l]
           ou == IF po.valid = 1 /\ st.ready = 1 THEN Append(out, po.v) ELSE out
           mn == RespNext(m, st.start, T.vin, T.size, st.ready)
       IN  /\ out' = ou /\ po' = st.o /\ taken' = taken /\ acts' = acts
           /\ m' = [state |-> st.fsm.state, temp |-> st.fsm.temp, tsize |-> st.fsm.tsize, aux |-> st.fsm.aux,
                    valid |-> st.o.valid, v |-> st.o.v]
           /\ IF ~IsPrefix(ou, Response(T.vin, T.size)) THEN bad' = TRUE /\ Say("V", "wrong-character", ou)
              ELSE /\ bad' = FALSE
                   /\ IF mn # m' THEN Say("D", "response-fsm", 0) ELSE TRUE

Step == ~bad /\ l <= Len(T.steps) /\ l' = l + 1 /\ tid' = tid /\ (ReqStep \/ RespStep)

Done ==
    /\ ~bad /\ l > Len(T.steps)
    /\ IF T.mode = "req" /\ acts # Parse(taken) THEN Say("V", "action-missing", acts)
       ELSE IF T.mode = "req" /\ Len(taken) # T.sent THEN Say("V", "character-not-taken", Len(taken))
       ELSE IF T.mode = "resp" /\ out # Response(T.vin, T.size) THEN Say("V", "response-incomplete", out)
       ELSE Say("J", "done", 0)
    /\ FALSE

Next == Step \/ Done
=============================================================================
