-------------------------------- MODULE MC_Uart --------------------------------
(* C17: the real UART assembly (serializer -> line -> clock generation and      *)
(* recovery -> deserializer), extracted from the live py4hw objects, executed   *)
(* cycle by cycle by the Kernel (implementation-shaped layer: the behavioural   *)
(* leaves are transcribed in PrimSem, the structural part is the extracted      *)
(* netlist), for every pair of bytes of an alphabet, every inter-byte gap and   *)
(* every receiver pattern.  Checked against the property layer of Uart.tla.     *)
EXTENDS Kernel, Uart, Json, IOUtils

CONSTANTS Half,        \* N: system clocks per bit = 2N
          Alphabet, Gaps, ReadyPats, MaxT, Emit

Cfg == JsonDeserialize(IOEnv.CFG_FILE)      \* [net, order, io |-> [line, sr, sv, sx, dr, dv, dx]]
IO == Cfg.io

VARIABLES queue, wait, gap, sent, deliv, line, rp, t, hist
uvars == <<kvars, queue, wait, gap, sent, deliv, line, rp, t, hist>>

Init ==
    \E b1 \in Alphabet, b2 \in Alphabet, g \in Gaps, r \in ReadyPats :
        /\ KInit(Cfg.net, [w \in 1..Len(Cfg.net.width) |-> 0])
        /\ queue = <<b1, b2>> /\ wait = 0 /\ gap = g /\ sent = <<>> /\ deliv = <<>> /\ line = <<>> /\ rp = r /\ t = 0
        /\ hist = <<>>

\* the kernel is started with the evaluation order of the real simulator (checked to be topological)
Start ==
    /\ pc = "built"
    /\ order' = Cfg.order
    /\ val' = PropAll(val, Cfg.order)
    /\ pc' = "idle"
    /\ passes' = 1
    /\ UNCHANGED <<net, nxt, prepared, st, pendD, pendL, cycles, budget, pre, skipped, taint, dirty,
                   queue, wait, gap, sent, deliv, line, rp, t, hist>>

ReadyAt(r, tt) == CASE r = 1 -> 1 [] r = 2 -> tt % 2 [] r = 3 -> (IF tt % 3 = 0 THEN 1 ELSE 0) [] r = 4 -> (IF tt % 5 < 2 THEN 1 ELSE 0)
                    [] r = 5 -> (IF tt % 7 \in {0, 3} THEN 1 ELSE 0)
                    [] r = 6 -> (IF tt % 9 = 0 THEN 1 ELSE 0)              \* slow receiver: one ready cycle in nine
                    [] r = 7 -> (IF tt % (4 * Half + 1) = 0 THEN 1 ELSE 0)  \* one ready cycle in two bit times

Cycle ==
    /\ pc = "idle" /\ t < MaxT
    /\ LET present == queue # <<>> /\ wait = 0
           sv == IF present THEN 1 ELSE 0
           sx == IF present THEN Head(queue) ELSE 0
           dr == ReadyAt(rp, t)
           poked == [val EXCEPT ![IO.sv] = sv, ![IO.sx] = sx, ![IO.dr] = dr]
           v0 == PropAll(poked, order)
           taken == sv = 1 /\ v0[IO.sr] = 1
           given == v0[IO.dv] = 1 /\ dr = 1
           c == CycleRef(v0, st, order)
       IN  /\ val' = c.v /\ st' = c.s
           /\ sent' = IF taken THEN Append(sent, sx) ELSE sent
           /\ deliv' = IF given THEN Append(deliv, v0[IO.dx]) ELSE deliv
           /\ queue' = IF taken THEN Tail(queue) ELSE queue
           /\ wait' = IF taken THEN gap ELSE IF wait > 0 /\ queue # <<>> /\ Len(sent) > 0 THEN wait - 1 ELSE wait
           /\ line' = Append(line, c.v[IO.line])
           /\ hist' = Append(hist, <<sv, sx, dr>>)
    /\ t' = t + 1
    /\ cycles' = cycles + 1
    /\ UNCHANGED <<net, nxt, prepared, order, pc, passes, pendD, pendL, budget, pre, skipped, taint, dirty, gap, rp>>

Report == /\ Emit /\ t = MaxT /\ PrintT(ToJson(<<"U", queue, gap, rp, hist, sent, deliv>>)) /\ FALSE

Next == Start \/ Cycle \/ Report

\* ------------------------------------------------------------------ properties
OrderIsTopological == (pc = "idle" /\ t = 0) => Topological(order)
DeliveredIsPrefixOfAccepted == IsPrefix(deliv, sent)
\* the independent software receiver is run on the line recorded so far (every 8th cycle and at the end)
LineIs8N1 == (t % 8 = 0 \/ t = MaxT) =>
                 LET ld == LineDecode(line, Half) IN
                 /\ IsPrefix(ld, sent) \/ IsPrefix(sent, ld)
                 /\ \A k \in 1..Len(ld) : ld[k] # -1
\* bounded liveness: by MaxT both bytes were accepted, delivered, and are readable on the line
AllDelivered == t = MaxT => /\ queue = <<>> /\ Len(sent) = 2 /\ deliv = sent /\ LineDecode(line, Half) = sent
=============================================================================
