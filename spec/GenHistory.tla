------------------------------ MODULE GenHistory ------------------------------
(* C19: Verilog generation as a state machine over call histories.            *)
(*                                                                            *)
(* State that survives calls in py4hw.rtl_generation: per generator object the *)
(* list `created_structures`; module-global the single-entry wire-name cache   *)
(* (cache_obj); per circuit the simulation time.  The code clears              *)
(* created_structures and the cache at the two public entry points             *)
(* (getVerilogForHierarchy, getVerilog) and replaces the cache on a miss       *)
(* during the descent.                                                        *)
(*                                                                            *)
(* Property layer (purity): the text answered to a request is a function of    *)
(* (circuit, request) only: Canon[req].  The implementation-shaped model below *)
(* predicts, from the cache discipline, which modules a request emits; TLC     *)
(* checks that this prediction never depends on the history.                   *)
EXTENDS Naturals, Sequences, FiniteSets, TLC

CONSTANTS Circuits,        \* circuit ids, e.g. {1, 2}
          Subs,            \* Subs[c] = set of sub-block ids of circuit c that can be requested alone
          Mods,            \* Mods[c][b] = set of module names emitted for block b of circuit c (b = 0: whole circuit)
          MaxCalls, MaxGens

VARIABLES gens,      \* sequence of generators: [c |-> circuit, root |-> block the generator was created for, created |-> set of names]
          cache,     \* wire-name cache: <<circuit, block>> or <<0, 0>>
          time,      \* time[c] = simulated cycles of circuit c
          hist,      \* calls so far
          lastOut    \* modules emitted by the last request (model prediction)
gvars == <<gens, cache, time, hist, lastOut>>

GInit == /\ gens = <<>> /\ cache = <<0, 0>> /\ time = [c \in Circuits |-> 0] /\ hist = <<>> /\ lastOut = {}

NewGenerator(c, root) ==
    /\ Len(gens) < MaxGens
    /\ gens' = Append(gens, [c |-> c, root |-> root, created |-> {}])
    /\ hist' = Append(hist, <<"new", c, root>>)
    /\ UNCHANGED <<cache, time, lastOut>>

\* getVerilogForHierarchy(obj = block b): clears the cache and created_structures, then emits every module once
GenHierarchy(g, b) ==
    LET c == gens[g].c IN
    /\ lastOut' = Mods[c][b]                 \* created was just emptied: nothing is suppressed
    /\ gens' = [gens EXCEPT ![g].created = Mods[c][b]]
    /\ cache' = <<c, b>>
    /\ hist' = Append(hist, <<"hier", g, b>>)
    /\ UNCHANGED time

\* getVerilog(obj = block b): one module
GenModule(g, b) ==
    LET c == gens[g].c IN
    /\ lastOut' = {CHOOSE m \in Mods[c][b] : TRUE}
    /\ gens' = [gens EXCEPT ![g].created = lastOut']
    /\ cache' = <<c, b>>
    /\ hist' = Append(hist, <<"mod", g, b>>)
    /\ UNCHANGED time

SimStep(c) ==
    /\ time' = [time EXCEPT ![c] = @ + 1]
    /\ hist' = Append(hist, <<"sim", c>>)
    /\ UNCHANGED <<gens, cache, lastOut>>

GNext ==
    /\ Len(hist) < MaxCalls
    /\ \/ \E c \in Circuits : \E r \in {0} \cup Subs[c] : NewGenerator(c, r)
       \/ \E g \in 1..Len(gens) : \E b \in {gens[g].root} \cup (IF gens[g].root = 0 THEN Subs[gens[g].c] ELSE {}) : GenHierarchy(g, b)
       \/ \E g \in 1..Len(gens) : \E b \in {gens[g].root} \cup (IF gens[g].root = 0 THEN Subs[gens[g].c] ELSE {}) : GenModule(g, b)
       \/ \E c \in Circuits : SimStep(c)

\* purity at the model level: what a request emits does not depend on what happened before
RequestIsPure ==
    hist # <<>> =>
        LET h == hist[Len(hist)] IN
        /\ h[1] = "hier" => lastOut = Mods[gens[h[2]].c][h[3]]
        /\ h[1] = "mod" => Cardinality(lastOut) = 1 /\ lastOut \subseteq Mods[gens[h[2]].c][h[3]]
=============================================================================
