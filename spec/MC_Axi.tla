-------------------------------- MODULE MC_Axi --------------------------------
(* C16: both adapters under EVERY schedule of start/reset/done/load pulses,    *)
(* peer VALID/READY and data (done only after a completed transfer): TLC       *)
(* checks that the implementation-shaped registers satisfy every clause of the *)
(* statement, and prints one input history per transition for replay.          *)
EXTENDS Axi, Json

CONSTANTS Data, EmitMod, MaxDepth
VARIABLES which, s, g, xfer, hist, ok
View == <<which, s, g, xfer, ok>>

Bit == {0, 1}
A2RIn == [start : Bit, reset : Bit, done : Bit, tvalid : Bit, tdata : Data]
R2AIn == [start : Bit, reset : Bit, done : Bit, load : Bit, regin : Data, tready : Bit]

Init == /\ which \in {"A2R", "R2A"}
        /\ s = IF which = "A2R" THEN A2RInit ELSE R2AInit(1)
        /\ g = -1 /\ xfer = 0 /\ hist = <<>> /\ ok = TRUE

Emit(i) == /\ hist' = Append(hist, i)
           /\ IF RandomElement(1..EmitMod) = 1 THEN PrintT(ToJson(<<"X", which, Append(hist, i)>>)) ELSE TRUE

\* done is only signalled after a completed transfer (since the adapter was last started)
DoneAllowed(i) == i.done = 1 => xfer = 1

Next ==
    /\ Len(hist) < MaxDepth
    /\ which' = which
    /\ IF which = "A2R"
       THEN \E i \in A2RIn :
              /\ DoneAllowed(i)
              /\ LET t == A2RNext(s, i) IN
                 /\ s' = t
                 /\ ok' = AllTrue(A2RProps(s, i, t))
                 /\ xfer' = IF i.reset = 1 \/ i.done = 1 THEN 0 ELSE IF A2RXfer(s, i) THEN 1 ELSE xfer
                 /\ g' = g
              /\ Emit(i)
       ELSE \E i \in R2AIn :
              /\ DoneAllowed(i)
              /\ LET t == R2ANext(s, i) IN
                 /\ s' = t
                 /\ ok' = AllTrue(R2AProps(s, i, t, g))
                 /\ g' = R2AGhost(g, s, i)
                 /\ xfer' = IF i.reset = 1 \/ i.done = 1 THEN 0 ELSE IF And(s.active, 1) = 1 /\ R2AAccepted(s, i) THEN 1 ELSE xfer
              /\ Emit(i)

StatementHolds == ok
=============================================================================
