------------------------------- MODULE Trace_WF -------------------------------
(* C03: every emitted file (JSON AST + interface table of the live objects)    *)
(* is judged by the static semantics of VerilogWF.                             *)
EXTENDS VerilogWF, Json, IOUtils

VARIABLES tid, done
Files == JsonDeserialize(IOEnv.TRACE_FILE)
Init == tid \in 1..Len(Files) /\ done = FALSE
Next == /\ ~done /\ done' = TRUE /\ tid' = tid
        /\ LET fs == FileFindings(Files[tid]) IN
           PrintT(ToJson(<<"F", tid, Len(Files[tid].modules), fs>>))
=============================================================================
