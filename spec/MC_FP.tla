--------------------------------- MODULE MC_FP ---------------------------------
(* C13, design level: the adder algorithm of FPBlocks run over ALL pairs of      *)
(* normal operands of a small format (EW, MW) with an exponent-difference wire   *)
(* of DW bits, judged by the same predicate as the real block (AddOK) and for    *)
(* commutativity.  With 2^DW > MW + 1 but 2^DW <= largest exponent gap the       *)
(* alignment shift wraps for gaps >= 2^DW: the model shows which operand pairs    *)
(* are affected.                                                               *)
EXTENDS FPBlocks, Json
CONSTANTS EW, MW, DW
VARIABLES pa, pb, res
Pats == {p \in 0..(Pow2(EW + MW + 1) - 1) : IsNormal(EW, Fields(EW, MW, p))}
Init == pa \in Pats /\ pb \in Pats /\ res = AdderModel(EW, MW, DW, pa, pb)
Next == UNCHANGED <<pa, pb, res>>
Gap == LET fa == Fields(EW, MW, pa) fb == Fields(EW, MW, pb) IN IF fa[2] >= fb[2] THEN fa[2] - fb[2] ELSE fb[2] - fa[2]
AdderMeetsBound == Gap < Pow2(DW) => AddOK(EW, MW, Limbed(Fields(EW, MW, pa)), Limbed(Fields(EW, MW, pb)), Limbed(res))
AdderMeetsBoundAllGaps == AddOK(EW, MW, Limbed(Fields(EW, MW, pa)), Limbed(Fields(EW, MW, pb)), Limbed(res))
ExactSum == DAdd(Val(EW, MW, Limbed(Fields(EW, MW, pa))), Val(EW, MW, Limbed(Fields(EW, MW, pb))))
AdderCommutes == NormalRange(EW, ExactSum) => res = AdderModel(EW, MW, DW, pb, pa)
=============================================================================
