---------------------------- MODULE Trace_Kernel ----------------------------
(* Binding V for the simulator kernel (C05, C06, C10, and the netlist side   *)
(* of C07-C09): runs recorded from the real py4hw simulator on a netlist     *)
(* extracted from the live objects are checked step by step against the      *)
(* order-free reference of Kernel.tla.                                       *)
(*   trace  = [net, v0, steps]                                               *)
(*   step   = [act |-> "sim",  status, vals]                                 *)
(*          | [act |-> "poke", w, v]                                         *)
(*          | [act |-> "clk",  n, vals, st, total, prepared, notified, seen] *)
(*            notified = listener notifications during the call, seen = the  *)
(*            wire values at each of them (recorded for short calls)         *)
(* The harness may have imposed any visit order of drivers/clockables and    *)
(* any splitting into clk(n) calls: the reference does not depend on them.   *)
EXTENDS Kernel, Json, IOUtils

VARIABLES tid, l, bad
tvars == <<kvars, tid, l, bad>>

Traces == JsonDeserialize(IOEnv.TRACE_FILE)
T == Traces[tid]
Step == T.steps[l]

Init ==
    /\ tid \in 1..Len(Traces)
    /\ l = 1
    /\ bad = FALSE
    /\ KInit(Traces[tid].net, Traces[tid].v0)

InRange(vals) == \A w \in Wires : vals[w] \in 0..(Pow2(net.width[w]) - 1)

FirstDiff(a, b) == IF Len(a) # Len(b) THEN 0 ELSE
                   IF \E k \in 1..Len(a) : a[k] # b[k] THEN CHOOSE k \in 1..Len(a) : a[k] # b[k] /\ \A j \in 1..(k - 1) : a[j] = b[j]
                   ELSE -1

Emit(kind, clause, detail) == PrintT(ToJson(<<kind, tid, l, clause, detail>>))

Silent == pc \in {"built", "sorting"} /\ ~bad /\ (GetSimulator \/ SortPass) /\ UNCHANGED <<tid, l, bad>>

Frame == UNCHANGED <<net, nxt, prepared, order, pc, passes, pendD, pendL, budget, pre, skipped, tid>>

SimStep ==
    /\ pc \in {"idle", "raised"} /\ ~bad /\ l <= Len(T.steps) /\ Step.act = "sim"
    /\ l' = l + 1
    /\ UNCHANGED <<kvars, tid>>
    /\ IF Step.status # pc
       THEN /\ bad' = TRUE
            /\ Emit("V", IF pc = "raised" THEN "cyclic-accepted" ELSE "acyclic-refused", 0)
       ELSE IF pc = "idle" /\ ~InRange(Step.vals)
       THEN bad' = TRUE /\ Emit("V", "range", FirstDiff(Step.vals, [w \in Wires |-> Step.vals[w] % Pow2(net.width[w])]))
       ELSE IF pc = "idle" /\ ~taint /\ Step.vals # val
       THEN bad' = TRUE /\ Emit("V", "sim-vals", FirstDiff(Step.vals, val))
       ELSE bad' = (pc = "raised")

PokeStep ==
    /\ pc = "idle" /\ ~bad /\ l <= Len(T.steps) /\ Step.act = "poke"
    /\ l' = l + 1
    /\ val' = [val EXCEPT ![Step.w] = Put(Step.v, net.width[Step.w])]
    /\ UNCHANGED <<st, cycles, taint, dirty, bad>>
    /\ Frame

ClkStep ==
    /\ pc = "idle" /\ ~bad /\ l <= Len(T.steps) /\ Step.act = "clk"
    /\ l' = l + 1
    /\ LET v0 == PropAll(val, order)
           c  == CyclesRef(v0, st, order, Step.n)
       IN  /\ val' = c.v
           /\ st' = c.s
           /\ cycles' = cycles + Step.n
           /\ UNCHANGED <<taint, dirty>>
           /\ IF ~InRange(Step.vals)
              THEN bad' = TRUE /\ Emit("V", "range", FirstDiff(Step.vals, [w \in Wires |-> Step.vals[w] % Pow2(net.width[w])]))
              ELSE IF Step.vals # c.v
              THEN bad' = TRUE /\ Emit("V", "clk-vals", FirstDiff(Step.vals, c.v))
              ELSE IF Step.prepared # 0
              THEN bad' = TRUE /\ Emit("V", "prepared-not-empty", Step.prepared)
              ELSE IF Step.total # cycles + Step.n
              THEN bad' = TRUE /\ Emit("V", "total-clks", Step.total)
              ELSE IF "notified" \in DOMAIN Step /\ Step.notified # Step.n
              THEN bad' = TRUE /\ Emit("V", "listener-once-per-cycle", Step.notified)
              ELSE IF "seen" \in DOMAIN Step /\ Step.seen # CyclesSeen(v0, st, order, Step.n)
              THEN bad' = TRUE /\ Emit("V", "listener-sees-each-cycle", Step.n)
              ELSE IF \E k \in 1..Len(Step.st) : Step.st[k] # c.s[k]
              THEN bad' = FALSE /\ Emit("D", "leaf-state", CHOOSE k \in 1..Len(Step.st) : Step.st[k] # c.s[k])
              ELSE bad' = FALSE
    /\ Frame

Done == l > Len(T.steps) /\ ~bad /\ pc = "idle" /\ Emit("J", "done", cycles) /\ FALSE

Next == Silent \/ SimStep \/ PokeStep \/ ClkStep \/ Done

Spec == Init /\ [][Next]_tvars
=============================================================================
