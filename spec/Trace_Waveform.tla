---------------------------- MODULE Trace_Waveform ----------------------------
(* C15, binding V: what the real Waveform recorded and rendered, judged        *)
(* against the recorder/codec specification.                                   *)
(*  trace  = [widths (per unique wire), watch (unique index per watch item), events] *)
(*  event  = [act |-> "clk", pre |-> Seq(value vector per cycle)]   pre-edge values *)
(*           observed by an independent probe (listener), one vector per edge   *)
(*         | [act |-> "clear"]                                                  *)
(*         | [act |-> "render", dict, lanes, clock]                             *)
EXTENDS Waveform, Json, IOUtils

VARIABLES tid, l, data, bad
Traces == JsonDeserialize(IOEnv.TRACE_FILE)
T == Traces[tid]
E == T.events[l]

Init == /\ tid \in 1..Len(Traces) /\ l = 1 /\ bad = FALSE
        /\ data = [k \in 1..Len(Traces[tid].widths) |-> <<>>]

RECURSIVE SampleAll(_, _, _)
SampleAll(d, pre, k) == IF k > Len(pre) THEN d ELSE SampleAll(Sample(d, pre[k]), pre, k + 1)

Say(kind, clause, detail) == PrintT(ToJson(<<kind, tid, l, clause, detail>>))

Cyc == IF Len(data) = 0 THEN 0 ELSE Len(data[1])

Step ==
    /\ ~bad /\ l <= Len(T.events)
    /\ l' = l + 1 /\ tid' = tid
    /\ CASE E.act = "clk" -> data' = SampleAll(data, E.pre, 1) /\ bad' = FALSE
         [] E.act = "clear" -> data' = Clear(data) /\ bad' = FALSE
         [] E.act = "render" ->
              /\ data' = data
              /\ IF E.dict # data THEN bad' = TRUE /\ Say("V", "dict", 0)
                 ELSE IF \E i \in 1..Len(T.watch) : Decode(E.lanes[i].wave, E.lanes[i].labels) # data[T.watch[i]]
                 THEN bad' = TRUE /\ Say("V", "decode", CHOOSE i \in 1..Len(T.watch) : Decode(E.lanes[i].wave, E.lanes[i].labels) # data[T.watch[i]])
                 ELSE IF \E i \in 1..Len(T.watch) : Span(E.lanes[i].wave) # Cyc
                 THEN bad' = TRUE /\ Say("V", "span", Cyc)
                 ELSE IF Span(E.clock) # Cyc \/ E.clock[1] # ChP
                 THEN bad' = TRUE /\ Say("V", "clock-lane", Cyc)
                 ELSE /\ bad' = FALSE
                      /\ IF \E i \in 1..Len(T.watch) :
                               LET r == Render(data[T.watch[i]], T.widths[T.watch[i]])
                               IN  r.wave # E.lanes[i].wave \/ r.labels # E.lanes[i].labels
                         THEN Say("D", "render-text", 0) ELSE TRUE

Done == ~bad /\ l > Len(T.events) /\ Say("J", "done", Cyc) /\ FALSE
Next == Step \/ Done
=============================================================================
