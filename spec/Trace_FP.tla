-------------------------------- MODULE Trace_FP --------------------------------
(* C13, binding V: outputs of the real 32-bit blocks judged by the property        *)
(* predicates of FPBlocks.  rows: [op, a, b, r, ...] with patterns <<sb, ef, mf>>. *)
EXTENDS FPBlocks, Json, IOUtils, FiniteSets
VARIABLES tid, done
Tables == JsonDeserialize(IOEnv.TRACE_FILE)
Init == tid \in 1..Len(Tables) /\ done = FALSE
P(x) == <<x[1], x[2], LimbsOf(x[3])>>
RowOK(r) ==
    CASE r.op = "cmp" -> CmpOK(8, 23, P(r.a), P(r.b), r.abs = 1, r.got)
      [] r.op = "mul" -> /\ MulOK(8, 23, P(r.a), P(r.b), P(r.r))
                         /\ NormalRange(8, DMul(Val(8, 23, P(r.a)), Val(8, 23, P(r.b)))) => r.r = r.rswap
      [] r.op = "add" -> /\ AddOK(8, 23, P(r.a), P(r.b), P(r.r))
                         /\ NormalRange(8, DAdd(Val(8, 23, P(r.a)), Val(8, 23, P(r.b)))) => r.r = r.rswap
      [] r.op = "fptoint" -> FPtoIntOK(P(r.a), r.r, r.plost, r.invalid)
      [] r.op = "inttofp" -> InttoFPOK(r.a, P(r.r), r.plost)
Next == /\ ~done /\ done' = TRUE /\ tid' = tid
        /\ LET t == Tables[tid]
               bad == {k \in 1..Len(t.rows) : ~RowOK(t.rows[k])}
           IN  IF bad = {} THEN PrintT(ToJson(<<"J", tid, Len(t.rows)>>))
               ELSE PrintT(ToJson(<<"V", tid, bad>>))
=============================================================================
