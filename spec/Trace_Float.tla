------------------------------- MODULE Trace_Float -------------------------------
(* C12, binding V: results of the number-format helpers of py4hw.helper judged      *)
(* against FloatFmt (exact dyadic arithmetic) and plain integer arithmetic.         *)
(*  table = [rows]; row = [op |-> ..., ...]:                                        *)
(*   "decode"  ew mw sb ef mf src got   : value obtained from a bit pattern          *)
(*   "encode"  ew mw d src got          : got = <<sb, ef, mf>> obtained from a value  *)
(*   "add" | "sub" | "mul"  x y got     : FPNum arithmetic                            *)
(*   "cmp"     x y got                  : FPNum.compare                               *)
(*   "c2"      w v c2 back              : signed_to_c2 / c2_to_signed                 *)
(*   "sext"    w nw v got               : signExtend                                  *)
(*   "fx"      kind w fw a b got        : FixedPoint add/sub/mult on raw encodings    *)
EXTENDS FloatFmt, Json, IOUtils, FiniteSets

VARIABLES tid, done
Tables == JsonDeserialize(IOEnv.TRACE_FILE)
Init == tid \in 1..Len(Tables) /\ done = FALSE

ValOK(exp, got) ==
    IF IsSpecial(exp) \/ IsSpecial(got)
    THEN IsSpecial(exp) /\ IsSpecial(got) /\ exp.sp = got.sp /\ (exp.sp = "nan" \/ exp.s = got.s)
    ELSE SameWithZeroSign(exp, got)

Fin2(r) == ~IsSpecial(FromJ(r.x)) /\ ~IsSpecial(FromJ(r.y))

RowOK(r) ==
    CASE r.op = "decode" ->
            LET exp == Decode(r.ew, r.mw, r.sb, r.ef, r.mf) IN
            (IsSpecial(exp) /\ exp.sp = "nan") \/ ValOK(exp, FromJ(r.got))
      [] r.op = "encode" ->
            IF IsSpecial(FromJ(r.d))
            THEN r.d.sp = "nan" \/ (r.got[1] = (IF r.d.s = 1 THEN 0 ELSE 1) /\ r.got[2] = EMax(r.ew) /\ IsZero(LimbsOf(r.got[3])))
            ELSE LET exp == Encode(r.ew, r.mw, FromJ(r.d)) IN
                 exp[1] = -1 \/ (exp[1] = r.got[1] /\ exp[2] = r.got[2] /\ exp[3] = LimbsOf(r.got[3]))
      \* arithmetic and ordering are constrained on finite operands (the result of a finite operation is finite)
      [] r.op = "add" -> Fin2(r) => (~IsSpecial(FromJ(r.got)) /\ SameValue(DAdd(FromJ(r.x), FromJ(r.y)), FromJ(r.got)))
      [] r.op = "sub" -> Fin2(r) => (~IsSpecial(FromJ(r.got)) /\ SameValue(DSub(FromJ(r.x), FromJ(r.y)), FromJ(r.got)))
      [] r.op = "mul" -> Fin2(r) => (~IsSpecial(FromJ(r.got)) /\ SameValue(DMul(FromJ(r.x), FromJ(r.y)), FromJ(r.got)))
      [] r.op = "cmp" -> Fin2(r) => DCmp(FromJ(r.x), FromJ(r.y)) = r.got
      [] r.op = "c2" -> r.c2 = r.v % Pow2(r.w) /\ r.back = ToSigned(r.v % Pow2(r.w), r.w)
      [] r.op = "sext" -> r.got = SignExt(r.v % Pow2(r.w), r.w, r.nw)
      [] r.op = "fx" ->
            LET sa == ToSigned(r.a, r.w)
                sb2 == ToSigned(r.b, r.w)
            IN  CASE r.kind = "add" -> r.got = (r.a + r.b) % Pow2(r.w)
                  [] r.kind = "sub" -> r.got = (r.a - r.b) % Pow2(r.w)
                  [] r.kind = "mult" -> r.got = ((sa * sb2) \div Pow2(r.fw)) % Pow2(r.w)

Next == /\ ~done /\ done' = TRUE /\ tid' = tid
        /\ LET t == Tables[tid]
               bad == {k \in 1..Len(t.rows) : ~RowOK(t.rows[k])}
           IN  IF bad = {} THEN PrintT(ToJson(<<"J", tid, Len(t.rows)>>))
               ELSE PrintT(ToJson(<<"V", tid, CHOOSE k \in bad : \A j \in bad : k <= j, Cardinality(bad)>>))
=============================================================================
