-------------------------------- MODULE MC_Hil --------------------------------
(* C20: the command decoder fed every command stream of a set under EVERY      *)
(* producer pacing (idle gaps anywhere, VALID held until taken), and the       *)
(* response encoder under EVERY consumer pacing (READY dropped anywhere):      *)
(* the implementation-shaped FSMs of HilCmd.tla must produce exactly the       *)
(* actions / characters of the property layer.  Complete schedules are         *)
(* printed for replay on the real blocks.                                      *)
EXTENDS HilCmd, Json

CONSTANTS Streams,      \* sequence of command streams (each a sequence of character codes)
          Values,       \* sequence of <<value, size>> pairs for the encoder
          MaxGaps,      \* idle cycles the producer / consumer may insert in one behaviour
          Emit

VARIABLES mode, id, r, q, pos, pv, acts, out, gaps, hist, cyc, started
vars == <<mode, id, r, q, pos, pv, acts, out, gaps, hist, cyc, started>>

Init == \/ /\ mode = "req" /\ id \in 1..Len(Streams)
           /\ r = ReqInit /\ q = RespInit /\ pos = 1 /\ pv = 0 /\ acts = <<>> /\ out = <<>>
           /\ gaps = MaxGaps /\ hist = <<>> /\ cyc = 0 /\ started = 0
        \/ /\ mode = "resp" /\ id \in 1..Len(Values)
           /\ r = ReqInit /\ q = RespInit /\ pos = 1 /\ pv = 0 /\ acts = <<>> /\ out = <<>>
           /\ gaps = MaxGaps /\ hist = <<>> /\ cyc = 0 /\ started = 0

S == Streams[id]
ReqDone == pos > Len(S) /\ r.state = 1 /\ r.o.ready = 1
RespDone == started = 1 /\ q.state = 0

ReqStep ==
    /\ mode = "req" /\ ~ReqDone
    /\ \E valid \in {0, 1} :
         /\ pv = 1 => valid = 1                       \* VALID is held until the character is taken
         /\ pos > Len(S) => valid = 0
         /\ (valid = 0 /\ pos <= Len(S)) => gaps > 0
         /\ LET c == IF pos <= Len(S) THEN S[pos] ELSE 0
                taken == valid = 1 /\ r.o.ready = 1
                n == ReqNext(r, valid, c)
            IN  /\ r' = n
                /\ acts' = acts \o EventsAt(r.o, n.o)
                /\ pos' = IF taken THEN pos + 1 ELSE pos
                /\ pv' = IF taken THEN 0 ELSE valid
                /\ gaps' = IF valid = 0 /\ pos <= Len(S) THEN gaps - 1 ELSE gaps
                /\ hist' = Append(hist, valid)
    /\ cyc' = cyc + 1
    /\ UNCHANGED <<mode, id, q, out, started>>

RespStep ==
    /\ mode = "resp" /\ ~RespDone
    /\ \E ready \in {0, 1} :
         /\ ready = 0 => gaps > 0
         /\ LET start == IF cyc = 0 THEN 1 ELSE 0
                n == RespNext(q, start, Values[id][1], Values[id][2], ready)
            IN  /\ q' = n
                /\ out' = IF q.valid = 1 /\ ready = 1 THEN Append(out, q.v) ELSE out
                /\ started' = IF cyc = 0 THEN 1 ELSE started
                /\ gaps' = IF ready = 0 THEN gaps - 1 ELSE gaps
                /\ hist' = Append(hist, ready)
    /\ cyc' = cyc + 1
    /\ UNCHANGED <<mode, id, r, pos, pv, acts>>

Report ==
    /\ Emit
    /\ \/ (mode = "req" /\ ReqDone /\ PrintT(ToJson(<<"H", "req", id, hist>>)))
       \/ (mode = "resp" /\ RespDone /\ cyc > 0 /\ PrintT(ToJson(<<"H", "resp", id, hist>>)))
    /\ FALSE

Next == ReqStep \/ RespStep \/ Report

\* ------------------------------------------------------------- properties
ConsumesOnHandshake == mode = "req" /\ cyc > 0 => ((r.state = 1) <=> (r.o.ready = 1))
NoSpuriousAction == mode = "req" => IsPrefix(acts, Parse(SubSeq(S, 1, pos - 1)))
AllActionsOnce == mode = "req" /\ ReqDone => acts = Parse(S)
ResponsePrefix == mode = "resp" => IsPrefix(out, Response(Values[id][1], Values[id][2]))
ResponseComplete == mode = "resp" /\ RespDone /\ cyc > 0 => out = Response(Values[id][1], Values[id][2])
Progress == cyc <= 400
=============================================================================
