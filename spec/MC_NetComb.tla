------------------------------ MODULE MC_NetComb ------------------------------
(* C07 / C08 / C14, binding X: the leaf netlist that a library constructor      *)
(* really built (extracted from the live objects) is evaluated by the Kernel    *)
(* (PrimSem semantics, evaluation order of the real simulator) for ALL input    *)
(* vectors and compared with the reference semantics of Library.tla.           *)
(*   Cfgs[k] = [kind, c, iw, ow, net, order, ins, outs]                         *)
EXTENDS Kernel, Library, Json, IOUtils

VARIABLES cid, iv
Cfgs == JsonDeserialize(IOEnv.CFG_FILE)
C == Cfgs[cid]

RECURSIVE AllVals(_)
AllVals(ws) == IF ws = <<>> THEN {<<>>}
               ELSE {<<v>> \o r : v \in 0..(Pow2(Head(ws)) - 1), r \in AllVals(Tail(ws))}

Init ==
    /\ cid \in 1..Len(Cfgs)
    /\ iv \in AllVals(Cfgs[cid].iw)
    /\ KInit(Cfgs[cid].net, [w \in 1..Len(Cfgs[cid].net.width) |->
                               IF \E k \in 1..Len(Cfgs[cid].ins) : Cfgs[cid].ins[k] = w
                               THEN iv[CHOOSE k \in 1..Len(Cfgs[cid].ins) : Cfgs[cid].ins[k] = w] ELSE 0])
Next == UNCHANGED <<kvars, cid, iv>>

Outs(v) == [k \in 1..Len(C.outs) |-> v[C.outs[k]]]
Agree(exp, got) == Len(exp) = Len(got) /\ \A k \in 1..Len(exp) : exp[k] = DC \/ exp[k] = got[k]
AllZero == \A k \in 1..Len(iv) : iv[k] = 0

\* verdict records (the invariant itself always holds; the harness reads the records):
\*   <<"J", cid, topological>> once per configuration,  <<"V", cid, iv, expected, got>> per failing vector
JudgeWith(s, exp) ==
    /\ (TaintIn(s, C.order) \/ Agree(exp, Outs(s))) \/ PrintT(ToJson(<<"V", cid, iv, exp, Outs(s)>>))
    /\ AllZero => PrintT(ToJson(<<"J", cid, TopologicalFast(C.order)>>))
\* the netlist never changes: states are identified by configuration and vector only
View == <<cid, iv>>
Judge == JudgeWith(PropAll(val, C.order), CombRefA(C.kind, C.c, iv, C.iw, C.ow))
=============================================================================
