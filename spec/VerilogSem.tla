------------------------------ MODULE VerilogSem ------------------------------
(* Semantics of the Verilog subset py4hw emits (IEEE 1364-2005): expression    *)
(* sizing and signedness (self-determined width, context width, sign of the    *)
(* whole context), part/bit select, concatenation/replication, continuous      *)
(* assignment fixpoint, always @(posedge) with blocking / non-blocking update,  *)
(* always @* , reg initial values, memories, case, hierarchical instances     *)
(* with named port binding.  The design is the JSON AST of the emitted file     *)
(* (harness/vparse.py, syntax only; `sym` is the per-module declaration table). *)
(*                                                                            *)
(* Values are limb vectors (module Limb).  Never-initialised storage starts at  *)
(* 0 here; the harness reports the set of such variables separately.           *)
EXTENDS Limb, TLC

CONSTANT MaxSweeps

SeqRangeV(s) == {s[k] : k \in 1..Len(s)}

ModIx(F, name) == CHOOSE k \in 1..Len(F.modules) : F.modules[k].name = name
HasMod(F, name) == \E k \in 1..Len(F.modules) : F.modules[k].name = name
Mod(F, name) == F.modules[ModIx(F, name)]

\* declaration table of module m: m.sym[n] = [w, s (signed 0/1), kind, lo (array low bound), len (array length or 0), l (lsb index)]
W(m, n) == m.sym[n].w
Sg(m, n) == m.sym[n].s = 1
IsMem(m, n) == m.sym[n].len > 0
Known(m, n) == n \in DOMAIN m.sym

NumW(e) == IF e.w = 0 THEN Max(32, LB * (Len(e.vl) - 1) + BitLen(e.vl[Len(e.vl)])) ELSE e.w

\* constant index (literal) of a part select / replication count
NumIdx(e) == IF e.k = "num" THEN ToInt(e.vl) ELSE IF e.k = "un" /\ e.op = "-" THEN 0 - ToInt(e.a.vl) ELSE 0

\* ------------------------------------------------------ self-determined width and sign (5.4.1, 5.5.1)
RECURSIVE SW(_, _), SumW(_, _, _)
SW(m, e) ==
    CASE e.k = "id" -> W(m, e.n)
      [] e.k = "num" -> NumW(e)
      [] e.k = "un" -> IF e.op \in {"~", "-", "+"} THEN SW(m, e.a) ELSE 1
      [] e.k = "bin" ->
            IF e.op \in {"+", "-", "*", "/", "%", "&", "|", "^", "~^", "^~"} THEN Max(SW(m, e.a), SW(m, e.b))
            ELSE IF e.op \in {"<<", ">>", "<<<", ">>>", "**"} THEN SW(m, e.a)
            ELSE 1
      [] e.k = "tern" -> Max(SW(m, e.a), SW(m, e.b))
      [] e.k = "bit" -> IF IsMem(m, e.n) THEN W(m, e.n) ELSE 1
      [] e.k = "bit2" -> 1
      [] e.k = "part" -> NumIdx(e.h) - NumIdx(e.l) + 1
      [] e.k = "cat" -> SumW(m, e.xs, 1)
      [] e.k = "rep" -> NumIdx(e.n) * SW(m, e.x)
      [] e.k = "call" -> SW(m, e.a)
SumW(m, xs, k) == IF k > Len(xs) THEN 0 ELSE SW(m, xs[k]) + SumW(m, xs, k + 1)

RECURSIVE SS(_, _)
SS(m, e) ==
    CASE e.k = "id" -> Sg(m, e.n)
      [] e.k = "num" -> e.s = 1
      [] e.k = "un" -> IF e.op \in {"~", "-", "+"} THEN SS(m, e.a) ELSE FALSE
      [] e.k = "bin" ->
            IF e.op \in {"+", "-", "*", "/", "%", "&", "|", "^", "~^", "^~"} THEN SS(m, e.a) /\ SS(m, e.b)
            ELSE IF e.op \in {"<<", ">>", "<<<", ">>>", "**"} THEN SS(m, e.a)
            ELSE FALSE
      [] e.k = "tern" -> SS(m, e.a) /\ SS(m, e.b)
      [] e.k = "call" -> e.f = "$signed"
      [] OTHER -> FALSE

One(w) == FromInt(1, w)
Bool(b, w) == IF b THEN One(w) ELSE Zero(w)

RedAnd(v, w) == v = Ones(w)
RECURSIVE Parity(_, _)
Parity(v, k) == IF k > Len(v) THEN 0 ELSE (PopCount(v[k]) + Parity(v, k + 1)) % 2

\* ------------------------------------------------------ evaluation in a context (5.4.2, 5.5.2-5.5.4)
\* env : net/variable name -> value (memories: sequence of values); result has width w
RECURSIVE Ev(_, _, _, _, _)
Ev(m, env, e, w, sgn) ==
    CASE e.k = "id" -> Ext(env[e.n], W(m, e.n), w, sgn)
      [] e.k = "num" -> Ext(Norm(e.vl, NumW(e)), NumW(e), w, sgn)
      [] e.k = "un" ->
            IF e.op = "~" THEN NotV(Ev(m, env, e.a, w, sgn), w)
            ELSE IF e.op = "-" THEN Neg(Ev(m, env, e.a, w, sgn), w)
            ELSE IF e.op = "+" THEN Ev(m, env, e.a, w, sgn)
            ELSE (LET aw == SW(m, e.a)
                     av == Ev(m, env, e.a, aw, SS(m, e.a))
                 IN  Bool(CASE e.op = "!" -> IsZero(av)
                            [] e.op = "&" -> RedAnd(av, aw) [] e.op = "~&" -> ~RedAnd(av, aw)
                            [] e.op = "|" -> ~IsZero(av) [] e.op = "~|" -> IsZero(av)
                            [] e.op = "^" -> Parity(av, 1) = 1 [] OTHER -> Parity(av, 1) = 0, w))
      [] e.k = "bin" ->
            IF e.op \in {"+", "-", "*", "/", "%", "&", "|", "^", "~^", "^~"} THEN
                LET a == Ev(m, env, e.a, w, sgn)
                    b == Ev(m, env, e.b, w, sgn)
                IN  (CASE e.op = "+" -> Add(a, b, w) [] e.op = "-" -> Sub(a, b, w) [] e.op = "*" -> Mul(a, b, w)
                      [] e.op = "&" -> AndV(a, b, w) [] e.op = "|" -> OrV(a, b, w) [] e.op = "^" -> XorV(a, b, w)
                      [] e.op \in {"~^", "^~"} -> NotV(XorV(a, b, w), w)
                      [] e.op = "/" -> (IF IsZero(b) THEN Zero(w) ELSE IF sgn THEN DivS(a, b, w) ELSE DivU(a, b, w).q)
                      [] e.op = "%" -> (IF IsZero(b) THEN Zero(w) ELSE IF sgn THEN ModS(a, b, w) ELSE DivU(a, b, w).r))
            ELSE IF e.op \in {"<<", ">>", "<<<", ">>>"} THEN
                LET a == Ev(m, env, e.a, w, sgn)
                    bw == SW(m, e.b)
                    n == Capped(Ev(m, env, e.b, bw, FALSE), w)
                IN  (CASE e.op \in {"<<", "<<<"} -> Shl2(a, n, w)
                      [] e.op = ">>" -> Shr2(a, n, w)
                      [] e.op = ">>>" -> (IF sgn THEN Sar2(a, n, w) ELSE Shr2(a, n, w)))
            ELSE IF e.op \in {"==", "!=", "===", "!==", "<", "<=", ">", ">="} THEN
                LET cw == Max(SW(m, e.a), SW(m, e.b))
                    cs == SS(m, e.a) /\ SS(m, e.b)
                    a == Ev(m, env, e.a, cw, cs)
                    b == Ev(m, env, e.b, cw, cs)
                    c == IF cs THEN CmpS(a, b, cw) ELSE CmpU(a, b)
                IN  Bool(CASE e.op \in {"==", "==="} -> c = 0 [] e.op \in {"!=", "!=="} -> c # 0
                           [] e.op = "<" -> c < 0 [] e.op = "<=" -> c <= 0 [] e.op = ">" -> c > 0 [] e.op = ">=" -> c >= 0, w)
            ELSE IF e.op \in {"&&", "||"} THEN
                LET a == ~IsZero(Ev(m, env, e.a, SW(m, e.a), SS(m, e.a)))
                    b == ~IsZero(Ev(m, env, e.b, SW(m, e.b), SS(m, e.b)))
                IN  Bool(IF e.op = "&&" THEN a /\ b ELSE a \/ b, w)
            ELSE Zero(w)
      [] e.k = "tern" ->
            IF ~IsZero(Ev(m, env, e.c, SW(m, e.c), SS(m, e.c))) THEN Ev(m, env, e.a, w, sgn) ELSE Ev(m, env, e.b, w, sgn)
      [] e.k = "bit" ->
            LET i == Capped(Ev(m, env, e.i, SW(m, e.i), FALSE), 1000000) IN
            IF IsMem(m, e.n)
            THEN LET ix == i - m.sym[e.n].lo IN
                 IF ix >= 0 /\ ix < m.sym[e.n].len THEN Ext(env[e.n][ix + 1], W(m, e.n), w, FALSE) ELSE Zero(w)
            ELSE FromInt(BitOf(env[e.n], i - m.sym[e.n].l), w)
      [] e.k = "bit2" ->
            LET i == Capped(Ev(m, env, e.i, SW(m, e.i), FALSE), 1000000) - m.sym[e.n].lo
                j == Capped(Ev(m, env, e.j, SW(m, e.j), FALSE), 1000000)
            IN  IF i >= 0 /\ i < m.sym[e.n].len THEN FromInt(BitOf(env[e.n][i + 1], j), w) ELSE Zero(w)
      [] e.k = "part" ->
            LET lo == NumIdx(e.l) - m.sym[e.n].l
                n == NumIdx(e.h) - NumIdx(e.l) + 1
            IN  Ext(Slice2(Norm(env[e.n], W(m, e.n)), lo, n), n, w, FALSE)
      [] e.k = "cat" ->
            LET parts == [k \in 1..Len(e.xs) |-> [l |-> Ev(m, env, e.xs[k], SW(m, e.xs[k]), SS(m, e.xs[k])), w |-> SW(m, e.xs[k])]]
                c == Cat(parts)
            IN  Ext(c.l, c.w, w, FALSE)
      [] e.k = "rep" ->
            LET xw == SW(m, e.x)
                x == Ev(m, env, e.x, xw, SS(m, e.x))
                n == NumIdx(e.n)
                c == Cat([k \in 1..n |-> [l |-> x, w |-> xw]])
            IN  IF n <= 0 THEN Zero(w) ELSE Ext(c.l, c.w, w, FALSE)
      [] e.k = "call" ->
            LET aw == SW(m, e.a) IN Ext(Ev(m, env, e.a, aw, SS(m, e.a)), aw, w, sgn)

\* value of rhs assigned to a target of width lw
Rhs(m, env, e, lw) ==
    LET cw == Max(lw, SW(m, e)) IN Norm(Ev(m, env, e, cw, SS(m, e)), lw)

\* ------------------------------------------------------------------ lvalues
\* store value v (width = LvW) into env at lvalue l
RECURSIVE LvW(_, _), SumLvW(_, _, _)
LvW(m, l) == CASE l.k = "id" -> W(m, l.n) [] l.k = "bit" -> IF IsMem(m, l.n) THEN W(m, l.n) ELSE 1
               [] l.k = "part" -> NumIdx(l.h) - NumIdx(l.l) + 1 [] l.k = "bit2" -> 1
               [] l.k = "cat" -> SumLvW(m, l.xs, 1)
SumLvW(m, xs, k) == IF k > Len(xs) THEN 0 ELSE LvW(m, xs[k]) + SumLvW(m, xs, k + 1)

\* replace bits [lo .. lo+n-1] of old (width w) by v (width n)
Splice(old, w, lo, n, v) ==
    IF lo < 0 \/ lo >= w THEN old
    ELSE LET keep == NotV(Shl2(Norm(Ones(Min(n, w - lo)), w), lo, w), w)
         IN  OrV(AndV(old, keep, w), Shl2(Norm(v, w), lo, w), w)

RECURSIVE Store(_, _, _, _, _), StoreCat(_, _, _, _, _, _, _)
Store(m, env, rd, l, v) ==         \* rd = environment used to evaluate index expressions
    CASE l.k = "id" -> [env EXCEPT ![l.n] = Norm(v, W(m, l.n))]
      [] l.k = "bit" ->
            LET i == Capped(Ev(m, rd, l.i, SW(m, l.i), FALSE), 1000000) IN
            IF IsMem(m, l.n)
            THEN LET ix == i - m.sym[l.n].lo IN
                 IF ix >= 0 /\ ix < m.sym[l.n].len THEN [env EXCEPT ![l.n][ix + 1] = Norm(v, W(m, l.n))] ELSE env
            ELSE [env EXCEPT ![l.n] = Splice(env[l.n], W(m, l.n), i - m.sym[l.n].l, 1, v)]
      [] l.k = "part" ->
            [env EXCEPT ![l.n] = Splice(env[l.n], W(m, l.n), NumIdx(l.l) - m.sym[l.n].l, NumIdx(l.h) - NumIdx(l.l) + 1, v)]
      [] l.k = "cat" -> StoreCat(m, env, rd, l.xs, Len(l.xs), v, 0)
      [] OTHER -> env
StoreCat(m, env, rd, xs, k, v, off) ==
    IF k = 0 THEN env
    ELSE LET pw == LvW(m, xs[k]) IN
         StoreCat(m, Store(m, env, rd, xs[k], Slice2(v, off, pw)), rd, xs, k - 1, v, off + pw)

\* ---------------------------------------------------------------- statements
\* x = [env, nba]: env updated by blocking assignments; nba = sequence of [l, v] in program order
DoBa(m, env, nba, s) == [env |-> Store(m, env, env, s.l, Rhs(m, env, s.r, LvW(m, s.l))), nba |-> nba]
DoNba(m, env, nba, s) == [env |-> env, nba |-> Append(nba, [l |-> s.l, v |-> Rhs(m, env, s.r, LvW(m, s.l)), rd |-> env])]
RECURSIVE Exec(_, _, _), ExecSeq(_, _, _, _), ExecCase(_, _, _, _)
Exec(m, x, s) ==
    CASE s.k = "block" -> ExecSeq(m, x, s.xs, 1)
      [] s.k = "if" -> IF ~IsZero(Ev(m, x.env, s.c, SW(m, s.c), SS(m, s.c))) THEN Exec(m, x, s.t)
                       ELSE IF s.e = <<>> THEN x ELSE Exec(m, x, s.e[1])
      [] s.k = "case" -> ExecCase(m, x, s, 1)
      [] s.k = "ba" -> DoBa(m, x.env, x.nba, s)
      [] s.k = "nba" -> DoNba(m, x.env, x.nba, s)
      [] OTHER -> x
ExecSeq(m, x, xs, k) == IF k > Len(xs) THEN x ELSE ExecSeq(m, Exec(m, x, xs[k]), xs, k + 1)
ExecCase(m, x, s, k) ==
    IF k > Len(s.items) THEN (IF s.d = <<>> THEN x ELSE Exec(m, x, s.d[1]))
    ELSE IF \E j \in 1..Len(s.items[k].m) :
               LET cw == Max(SW(m, s.x), SW(m, s.items[k].m[j]))
                   cs == SS(m, s.x) /\ SS(m, s.items[k].m[j])
               IN  Ev(m, x.env, s.x, cw, cs) = Ev(m, x.env, s.items[k].m[j], cw, cs)
         THEN Exec(m, x, s.items[k].s)
         ELSE ExecCase(m, x, s, k + 1)

RECURSIVE ApplyNba(_, _, _, _)
ApplyNba(m, env, nba, k) == IF k > Len(nba) THEN env ELSE ApplyNba(m, Store(m, env, nba[k].rd, nba[k].l, nba[k].v), nba, k + 1)
ApplyX(m, x) == ApplyNba(m, x.env, x.nba, 1)

\* -------------------------------------------------------------- elaboration
\* state of an instance: [vars |-> name -> value, kids |-> instance name -> state]
VarNames(m) == {n \in DOMAIN m.sym : m.sym[n].kind \in {"reg", "integer", "outreg"}}
InitVal(m, n) ==
    LET d == m.sym[n] IN
    IF d.len > 0 THEN [k \in 1..d.len |-> Zero(d.w)]
    ELSE IF d.init = <<>> THEN Zero(d.w)
    ELSE Rhs(m, [x \in {} |-> 0], d.init[1], d.w)

Restrict(f, S) == TLCEval([n \in S |-> f[n]])
RECURSIVE InitState(_, _), ExecInitials(_, _, _)
InitState(F, name) ==
    LET m == Mod(F, name)
        v0 == [n \in VarNames(m) |-> InitVal(m, n)]
        \* initial blocks run once at time 0 (blocking assignments of constants)
        v1 == ExecInitials(m, v0, 1)
    IN  [vars |-> v1,
         kids |-> [i \in {m.insts[k].name : k \in 1..Len(m.insts)} |->
                     LET k == CHOOSE k \in 1..Len(m.insts) : m.insts[k].name = i
                     IN  IF HasMod(F, m.insts[k].mod) THEN InitState(F, m.insts[k].mod) ELSE [vars |-> <<>>, kids |-> <<>>]]]
ExecInitials(m, vars, k) ==
    IF k > Len(m.initials) THEN vars
    ELSE ExecInitials(m, Restrict(ApplyX(m, Exec(m, [env |-> [n \in DOMAIN m.sym |-> IF n \in DOMAIN vars THEN vars[n] ELSE Zero(m.sym[n].w)],
                                                            nba |-> <<>>], m.initials[k])), DOMAIN vars), k + 1)

InPorts(m) == {m.ports[k].n : k \in {k \in 1..Len(m.ports) : m.ports[k].dir = "input"}}
OutPorts(m) == {m.ports[k].n : k \in {k \in 1..Len(m.ports) : m.ports[k].dir = "output"}}

\* ------------------------------------------------------------ settle (combinational fixpoint)
RECURSIVE Settle(_, _, _, _), Sweep(_, _, _, _), SweepDone(_, _, _, _, _), SweepAssigns(_, _, _), SweepInsts(_, _, _, _, _), SweepComb(_, _, _)
\* ins : input port name -> value.  Result: environment of every net and variable of the instance
Settle(F, m, ins, st) ==
    Sweep(F, m, st, [env |-> TLCEval([n \in DOMAIN m.sym |->
                                        IF n \in DOMAIN ins THEN Norm(ins[n], m.sym[n].w)
                                        ELSE IF n \in DOMAIN st.vars THEN st.vars[n]
                                        ELSE Zero(m.sym[n].w)]), n |-> 0])

\* NOTE: TLC re-evaluates a LET-bound name at every use but evaluates an operator ARGUMENT at most once;
\* expensive intermediate values are therefore threaded through operator parameters.
SweepDone(F, m, st, x, e3) ==
    IF e3 = x.env \/ x.n >= MaxSweeps THEN [env |-> e3, n |-> x.n] ELSE Sweep(F, m, st, [env |-> e3, n |-> x.n + 1])
Sweep(F, m, st, x) == SweepDone(F, m, st, x, SweepComb(m, SweepInsts(F, m, st, SweepAssigns(m, x.env, 1), 1), 1))

SweepAssigns(m, env, k) ==
    IF k > Len(m.assigns) THEN env
    ELSE SweepAssigns(m, Store(m, env, env, m.assigns[k].l, Rhs(m, env, m.assigns[k].r, LvW(m, m.assigns[k].l))), k + 1)

ConnOf(inst, p) == IF \E j \in 1..Len(inst.conns) : inst.conns[j].p = p
                   THEN inst.conns[CHOOSE j \in 1..Len(inst.conns) : inst.conns[j].p = p].e ELSE <<>>

ChildIns(F, m, env, inst) ==
    LET c == Mod(F, inst.mod) IN
    [p \in InPorts(c) |-> IF ConnOf(inst, p) = <<>> THEN Zero(c.sym[p].w) ELSE Rhs(m, env, ConnOf(inst, p)[1], c.sym[p].w)]

RECURSIVE BindOuts(_, _, _, _, _)
BindOuts(m, env, inst, couts, j) ==
    IF j > Len(inst.conns) THEN env
    ELSE LET cn == inst.conns[j] IN
         BindOuts(m, IF cn.p \in DOMAIN couts /\ cn.e # <<>> /\ cn.e[1].k \in {"id", "bit", "part", "cat"}
                     THEN Store(m, env, env, cn.e[1], couts[cn.p]) ELSE env, inst, couts, j + 1)

SweepInsts(F, m, st, env, k) ==
    IF k > Len(m.insts) THEN env
    ELSE LET inst == m.insts[k] IN
         IF ~HasMod(F, inst.mod) THEN SweepInsts(F, m, st, env, k + 1)
         ELSE LET c == Mod(F, inst.mod)
                  ce == Settle(F, c, ChildIns(F, m, env, inst), st.kids[inst.name]).env
                  couts == [p \in OutPorts(c) |-> ce[p]]
              IN  SweepInsts(F, m, st, BindOuts(m, env, inst, couts, 1), k + 1)

\* always @*  blocks: blocking assignments, evaluated as part of the fixpoint
SweepComb(m, env, k) ==
    IF k > Len(m.always) THEN env
    ELSE IF m.always[k].edge # "star" THEN SweepComb(m, env, k + 1)
    ELSE SweepComb(m, ApplyX(m, Exec(m, [env |-> env, nba |-> <<>>], m.always[k].body)), k + 1)

\* ------------------------------------------------------------ clock edge
RECURSIVE Edge(_, _, _, _), EdgeBlocks(_, _, _, _), EdgeFinish(_, _, _, _, _)
\* every always @(posedge) block runs on the settled pre-edge environment; blocking assignments are visible
\* inside their own block only through x.env, non-blocking ones are applied after all blocks have run
EdgeBlocks(m, env, x, k) ==
    IF k > Len(m.always) THEN x
    ELSE IF m.always[k].edge # "posedge" THEN EdgeBlocks(m, env, x, k + 1)
    ELSE EdgeBlocks(m, env, Exec(m, x, m.always[k].body), k + 1)

EdgeFinish(F, m, st, env, e2) ==
    [vars |-> TLCEval([n \in DOMAIN st.vars |-> e2[n]]),
     kids |-> [i \in DOMAIN st.kids |->
                 LET k == CHOOSE k \in 1..Len(m.insts) : m.insts[k].name = i
                     inst == m.insts[k]
                 IN  IF HasMod(F, inst.mod) THEN Edge(F, Mod(F, inst.mod), ChildIns(F, m, env, inst), st.kids[i])
                     ELSE st.kids[i]]]
EdgeApply(F, m, st, env, x) == EdgeFinish(F, m, st, env, ApplyNba(m, x.env, x.nba, 1))
EdgeOn(F, m, st, env) == EdgeApply(F, m, st, env, EdgeBlocks(m, env, [env |-> env, nba |-> <<>>], 1))
Edge(F, m, ins, st) == EdgeOn(F, m, st, Settle(F, m, ins, st).env)

\* ------------------------------------------------------------ elaboration: flattening
\* The hierarchy is flattened once, inside the specification: every net of an instance gets the path-qualified
\* name  <instance>.<net>, every named port connection becomes a continuous assignment (input: child port :=
\* expression in the parent; output: parent lvalue := child port), and the definition of an instance is looked up
\* BY NAME among the emitted modules (so "bound to the first emitted body" is what is executed).
RECURSIVE Q(_, _), QS(_, _)
Q(e, pre) ==
    CASE e.k = "id" -> [e EXCEPT !.n = pre \o e.n]
      [] e.k = "num" -> e
      [] e.k = "un" -> [e EXCEPT !.a = Q(e.a, pre)]
      [] e.k = "bin" -> [e EXCEPT !.a = Q(e.a, pre), !.b = Q(e.b, pre)]
      [] e.k = "tern" -> [e EXCEPT !.c = Q(e.c, pre), !.a = Q(e.a, pre), !.b = Q(e.b, pre)]
      [] e.k = "bit" -> [e EXCEPT !.n = pre \o e.n, !.i = Q(e.i, pre)]
      [] e.k = "bit2" -> [e EXCEPT !.n = pre \o e.n, !.i = Q(e.i, pre), !.j = Q(e.j, pre)]
      [] e.k = "part" -> [e EXCEPT !.n = pre \o e.n]
      [] e.k = "cat" -> [e EXCEPT !.xs = [k \in 1..Len(e.xs) |-> Q(e.xs[k], pre)]]
      [] e.k = "rep" -> [e EXCEPT !.x = Q(e.x, pre)]
      [] e.k = "call" -> [e EXCEPT !.a = Q(e.a, pre)]
QL(l, pre) == Q(l, pre)
QS(s, pre) ==
    CASE s.k = "block" -> [s EXCEPT !.xs = [k \in 1..Len(s.xs) |-> QS(s.xs[k], pre)]]
      [] s.k = "if" -> [s EXCEPT !.c = Q(s.c, pre), !.t = QS(s.t, pre), !.e = IF s.e = <<>> THEN <<>> ELSE <<QS(s.e[1], pre)>>]
      [] s.k = "case" -> [s EXCEPT !.x = Q(s.x, pre),
                                   !.items = [k \in 1..Len(s.items) |->
                                                [m |-> [j \in 1..Len(s.items[k].m) |-> Q(s.items[k].m[j], pre)], s |-> QS(s.items[k].s, pre)]],
                                   !.d = IF s.d = <<>> THEN <<>> ELSE <<QS(s.d[1], pre)>>]
      [] s.k \in {"ba", "nba"} -> [s EXCEPT !.l = QL(s.l, pre), !.r = Q(s.r, pre)]
      [] OTHER -> s

RECURSIVE FlatM(_, _, _, _), FlatInsts(_, _, _, _, _)

\* continuous assignments that realise the named port connections of one instance
Binding(m, c, inst, pre) ==
    LET ip == pre \o inst.name \o "."
        conns == SelectSeq(inst.conns, LAMBDA cn : cn.e # <<>> /\ cn.p \in DOMAIN c.sym)
    IN  [j \in 1..Len(conns) |->
            IF c.sym[conns[j].p].kind = "input"
            THEN [l |-> [k |-> "id", n |-> ip \o conns[j].p], r |-> Q(conns[j].e[1], pre)]
            ELSE [l |-> QL(conns[j].e[1], pre), r |-> [k |-> "id", n |-> ip \o conns[j].p]]]

\* result: [sym, assigns, always, initials]
FlatM(F, name, pre, depth) ==
    LET m == Mod(F, name)
        own == [sym |-> TLCEval([qn \in {pre \o n : n \in DOMAIN m.sym} |-> m.sym[CHOOSE n \in DOMAIN m.sym : pre \o n = qn]]),
                assigns |-> [k \in 1..Len(m.assigns) |-> [l |-> QL(m.assigns[k].l, pre), r |-> Q(m.assigns[k].r, pre)]],
                always |-> [k \in 1..Len(m.always) |-> [edge |-> m.always[k].edge, clk |-> m.always[k].clk, body |-> QS(m.always[k].body, pre)]],
                initials |-> [k \in 1..Len(m.initials) |-> QS(m.initials[k], pre)]]
    IN  IF depth = 0 THEN own ELSE FlatInsts(F, m, pre, own, 1)

FlatInsts(F, m, pre, acc, k) ==
    IF k > Len(m.insts) THEN acc
    ELSE LET inst == m.insts[k] IN
         IF ~HasMod(F, inst.mod) THEN FlatInsts(F, m, pre, acc, k + 1)
         ELSE LET c == Mod(F, inst.mod)
                  sub == FlatM(F, inst.mod, pre \o inst.name \o ".", 12)
                  b == Binding(m, c, inst, pre)
              IN  FlatInsts(F, m, pre,
                            [sym |-> acc.sym @@ sub.sym,
                             assigns |-> acc.assigns \o SelectSeq(b, LAMBDA x : x.l.k = "id" /\ x.l.n \in DOMAIN sub.sym)
                                         \o sub.assigns \o SelectSeq(b, LAMBDA x : ~(x.l.k = "id" /\ x.l.n \in DOMAIN sub.sym)),
                             always |-> acc.always \o sub.always,
                             initials |-> acc.initials \o sub.initials], k + 1)

\* the flat design as a module-shaped record (no instances) that Settle / Edge operate on
Flatten(F, top) ==
    LET f == FlatM(F, top, "", 12)
        m == Mod(F, top)
    IN  [name |-> top, sym |-> f.sym, assigns |-> f.assigns, always |-> f.always, initials |-> f.initials,
         insts |-> <<>>, ports |-> m.ports]

FlatInit(fm) ==
    LET v0 == [n \in VarNames(fm) |-> InitVal(fm, n)]
    IN  [vars |-> ExecInitials(fm, v0, 1), kids |-> <<>>]

\* variables that never get a value before they are read at power-up (reported, not judged here)
Uninit(m) == {n \in VarNames(m) : m.sym[n].init = <<>> /\ m.sym[n].len = 0}
=============================================================================
