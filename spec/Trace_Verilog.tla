----------------------------- MODULE Trace_Verilog -----------------------------
(* C01 / C02 / C19, binding V: per-cycle outputs of the real py4hw simulator     *)
(* judged against the emitted Verilog executed under VerilogSem.                 *)
(*  trace = [file, top, ins (port names), outs (port names), pre, steps]         *)
(*    pre  = [i |-> input values, o |-> outputs at power-up (inputs applied)]    *)
(*    step = [i |-> input values held during the cycle, o |-> outputs after the edge] *)
(*    vars = names of Verilog variables compared with step.v (C02 state attributes)  *)
(*  values are limb sequences.                                                   *)
EXTENDS VerilogSem, Json, IOUtils

VARIABLES tid, l, st, bad, fm
Traces == JsonDeserialize(IOEnv.TRACE_FILE)
T == Traces[tid]
Top == fm

\* A text that is not closed (an identifier used but not declared in its module, an instance of a module the file does not
\* define) has no behaviour to compare: it is reported as such instead of being executed (static rules of VerilogWF).
WF == INSTANCE VerilogWF
Mods(F) == {F.modules[k] : k \in 1..Len(F.modules)}
Unresolved(F) ==
    UNION {{<<m.name, n>> : n \in (WF!Reads(m) \cup WF!Writes(m)) \ WF!Declared(m)} : m \in Mods(F)}
    \cup UNION {{<<m.name, m.insts[k].mod>> : k \in {k \in 1..Len(m.insts) : WF!Def(F, m.insts[k].mod) = <<>>}} : m \in Mods(F)}
    \cup (IF WF!Def(F, Traces[tid].top) = <<>> THEN {<<"file", Traces[tid].top>>} ELSE {})
Closed(F) == Unresolved(F) = {}

Init == /\ tid \in 1..Len(Traces) /\ l = 0 /\ bad = FALSE
        /\ fm = IF Closed(Traces[tid].file) THEN Flatten(Traces[tid].file, Traces[tid].top) ELSE <<>>
        /\ st = IF Closed(Traces[tid].file) THEN FlatInit(Flatten(Traces[tid].file, Traces[tid].top)) ELSE <<>>

InsOf(vals) == [p \in {T.ins[k] : k \in 1..Len(T.ins)} |-> vals[CHOOSE k \in 1..Len(T.ins) : T.ins[k] = p]]

Say(kind, clause, detail) == PrintT(ToJson(<<kind, tid, l, clause, detail>>))

Mismatch(env, outs) == {k \in 1..Len(T.outs) : Norm(env[T.outs[k]], Top.sym[T.outs[k]].w) # Norm(outs[k], Top.sym[T.outs[k]].w)}

PowerJudge(s, mm) ==
    IF s.n >= MaxSweeps THEN bad' = TRUE /\ Say("V", "combinational-loop-in-emitted-text", 0)
    ELSE IF mm # {} THEN bad' = TRUE /\ Say("V", "power-up", <<T.outs[CHOOSE k \in mm : TRUE], s.env[T.outs[CHOOSE k \in mm : TRUE]]>>)
    ELSE bad' = FALSE
PowerJudgeQuiet(s) == TRUE
PowerWith(s) ==
    IF T.xcheck = 1 /\ \E k \in 1..Len(T.outs) : T.outs[k] \in Uninit(fm)
    THEN bad' = FALSE /\ Say("X", "x-at-power-up", T.outs[CHOOSE k \in 1..Len(T.outs) : T.outs[k] \in Uninit(fm)]) /\ PowerJudgeQuiet(s)
    ELSE PowerJudge(s, Mismatch(s.env, T.pre.o))
PowerUp ==
    /\ l = 0 /\ ~bad
    /\ l' = 1 /\ tid' = tid /\ st' = st /\ fm' = fm
    /\ IF ~Closed(T.file) THEN bad' = TRUE /\ Say("V", "not-closed", CHOOSE u \in Unresolved(T.file) : TRUE)
       ELSE IF T.pre.skip = 1 THEN bad' = FALSE ELSE PowerWith(Settle(T.file, fm, InsOf(T.pre.i), st))

StepJudge(env, mm) ==
    IF mm # {} THEN bad' = TRUE /\ Say("V", "cycle", <<T.outs[CHOOSE k \in mm : TRUE], env[T.outs[CHOOSE k \in mm : TRUE]]>>)
    ELSE bad' = FALSE
StepEnv(env) == IF T.steps[l].skip = 1 THEN bad' = FALSE ELSE StepJudge(env, Mismatch(env, T.steps[l].o))
\* C02: Verilog variables that carry the names of Python state attributes must follow the same trajectory
VarMismatch(s2) == {k \in 1..Len(T.vars) : T.vars[k] \notin DOMAIN s2.vars \/ Norm(s2.vars[T.vars[k]], 32) # Norm(T.steps[l].v[k], 32)}
StepWith(ins, s2) ==
    /\ st' = s2
    /\ IF T.steps[l].skip = 0 /\ VarMismatch(s2) # {}
       THEN bad' = TRUE /\ Say("V", "state-variable", T.vars[CHOOSE k \in VarMismatch(s2) : TRUE])
       ELSE StepEnv(Settle(T.file, fm, ins, s2).env)
StepIns(ins) == StepWith(ins, Edge(T.file, fm, ins, st))
Step ==
    /\ l >= 1 /\ l <= Len(T.steps) /\ ~bad
    /\ l' = l + 1 /\ tid' = tid /\ fm' = fm
    /\ StepIns(InsOf(T.steps[l].i))

Done == ~bad /\ l > Len(T.steps) /\ Say("J", "done", 0) /\ FALSE
Next == PowerUp \/ Step \/ Done
=============================================================================
