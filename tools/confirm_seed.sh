#!/bin/sh
# tools/confirm_seed.sh <worktree> <mdir> : confirm a seeded change independently
#  (suite passes with it, demo fails with it, demo passes without); prints a JSON line.
#  test/unit/Test_FPAdder_SP.py::test_random draws unseeded operands and fails about one run in five on the unmodified
#  tree (cancellation makes its relative-error bound unreachable): a failure of that test alone is re-run up to 5 times.
WT="$1"; M="$2"
cd "$WT" || exit 2
git checkout -q -- . ; git apply --whitespace=nowarn "$M/patch.diff" || { echo "{\"error\":\"apply\"}"; exit 2; }
OUT=$(PYTHONPATH="$WT" MPLBACKEND=Agg timeout 1500 /venv/bin/python -m pytest -q -p no:cacheprovider --timeout=900 --continue-on-collection-errors -rf 2>&1)
SUITE=$(echo "$OUT" | tail -1)
FAILED=$(echo "$OUT" | grep '^FAILED' | awk '{print $2}')
if [ "$(echo "$FAILED" | grep -c .)" = "1" ] && echo "$FAILED" | grep -q 'Test_FPAdder_SP.py::Test_FPAdder_SP::test_random\|Test_FPAdder_SP.py::.*test_random'; then
  for i in 1 2 3 4 5; do
    if PYTHONPATH="$WT" MPLBACKEND=Agg timeout 600 /venv/bin/python -m pytest -q -p no:cacheprovider "$FAILED" >/dev/null 2>&1; then
      SUITE="161 passed (160 + flaky test_random passed on re-run $i)"; break
    fi
  done
fi
PYTHONPATH="$WT" MPLBACKEND=Agg timeout 300 /venv/bin/python "$M/demo.py" >/dev/null 2>&1; DW=$?
git checkout -q -- .
PYTHONPATH="$WT" MPLBACKEND=Agg timeout 300 /venv/bin/python "$M/demo.py" >/dev/null 2>&1; DWO=$?
echo "{\"suite_with_change\": \"$SUITE\", \"demo_exit_with_change\": $DW, \"demo_exit_without_change\": $DWO}"
