#!/bin/sh
# tools/confirm_seed.sh <worktree> <mdir> : confirm a seeded change independently
#  (suite passes with it, demo fails with it, demo passes without); prints a JSON line
WT="$1"; M="$2"
cd "$WT" || exit 2
git checkout -q -- . ; git apply --whitespace=nowarn "$M/patch.diff" || { echo "{\"error\":\"apply\"}"; exit 2; }
SUITE=$(PYTHONPATH="$WT" MPLBACKEND=Agg timeout 1500 /venv/bin/python -m pytest -q -p no:cacheprovider --timeout=900 --continue-on-collection-errors 2>&1 | tail -1)
PYTHONPATH="$WT" MPLBACKEND=Agg timeout 300 /venv/bin/python "$M/demo.py" >/dev/null 2>&1; DW=$?
git checkout -q -- .
PYTHONPATH="$WT" MPLBACKEND=Agg timeout 300 /venv/bin/python "$M/demo.py" >/dev/null 2>&1; DWO=$?
echo "{\"suite_with_change\": \"$SUITE\", \"demo_exit_with_change\": $DW, \"demo_exit_without_change\": $DWO}"
