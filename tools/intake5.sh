#!/bin/sh
# tools/intake3.sh <ID> : confirm both round-3 changes of <ID> in its scratch worktree, install them as m3/m4,
# run the property's quick check against the worktree with each applied (never touches /repo)
ID=$1; WT=/tmp/seed5/$ID
cd /verif
for k in 1 2; do
  M=$WT/out/m$k; AS=m$((k+6))
  [ -f $M/patch.diff ] || { echo "$ID m$k missing"; continue; }
  tools/confirm_seed.sh $WT $M > $M/confirm.json
  cat $M/confirm.json
  /venv/bin/python - "$M/confirm.json" <<'P' || { echo "$ID m$k NOT CONFIRMED"; continue; }
import json,sys
c=json.load(open(sys.argv[1]))
ok = c.get('demo_exit_with_change') not in (0,None) and c.get('demo_exit_without_change')==0 and 'passed' in c.get('suite_with_change','') and 'failed' not in c.get('suite_with_change','')
sys.exit(0 if ok else 1)
P
  /venv/bin/python tools/install_seed.py $ID m$k /tmp/seed5 $AS
  (cd $WT && git checkout -q -- .)
  /venv/bin/python tools/run_seeds.py $ID-$AS --wt=$WT
done
