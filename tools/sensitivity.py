#!/usr/bin/env python3
"""tools/sensitivity.py : regenerate SENSITIVITY.md from seeded/*/meta.json (documentation only; no check depends on it)"""
import json, os
root = '/verif/seeded'
rows = []
for n in sorted(os.listdir(root)):
    m = json.load(open(os.path.join(root, n, 'meta.json')))
    need = m['needs_to_manifest'].replace('\n', ' ').replace('|', '/')
    need = (need[:230] + '...') if len(need) > 230 else need
    runs = ', '.join('%s(%s): %s' % (r['check'], r['tier'], 'VIOLATION' if r['exit'] == 1 and r['violations'] else 'exit %d' % r['exit'])
                     for r in m.get('checks_run', []))
    sig = ''
    for r in m.get('checks_run', []):
        if r.get('signatures'):
            sig = r['signatures'][0].split(' count=')[0].replace('signature=', '')
            break
    extra = m.get('note') or m.get('rebased') or ''
    if extra:
        need = need + ' [' + extra[:200] + ']'
    rows.append('| %s | %s | %s | %s | %s |' % (n, m['property'], ', '.join(m.get('detected_by', [])) or '-', sig, need))
txt = ['# Seeded changes and the checks that catch them', '',
       'Eight changes per property (five rounds; from round 3 on the agents were also told which sites the earlier changes had used), written by independent sub-agents that were given only the property text and a scratch worktree; each was',
       'confirmed (`tools/confirm_seed.sh`): the 161 repository tests pass with it, its demonstration fails with it and passes without it.',
       '`tools/run_seeds.py` applies a change (to /repo, or with --wt to a scratch worktree), runs the check(s), records the outcome in `meta.json`, and restores the tree.', '',
       '| seed | property | detected by (quick tier) | first signature reported | what it needs to manifest |', '|---|---|---|---|---|'] + rows
detected = sum(1 for r in rows if '| - |' not in r)
own = sum(1 for n_, r in zip(sorted(os.listdir(root)), rows) if ('| %s |' % json.load(open(os.path.join(root, n_, 'meta.json')))['property']) and json.load(open(os.path.join(root, n_, 'meta.json')))['property'] in json.load(open(os.path.join(root, n_, 'meta.json'))).get('detected_by', []))
txt += ['', '%d of %d seeded changes are reported by the quick tier of some check, %d of them by the check of their own property; see DESIGN.md section 0.4 for the ones that are not.' % (detected, len(rows), own), '',
        'Notes on how checks were strengthened after a first miss (the property statements were never changed):', '',
        '* C05-m1 (settle per clock driver): the first quick configuration had a single clock domain; multi-domain netlists (MC_Edge with',
        '  Gated = TRUE, domain chains in the composites) were added.',
        '* C17-m2 (v driven from the filling shift register): receiver patterns slower than one hand-off per three bit times were added',
        '  (one ready cycle in nine / per two bit times), still inside the stated receiver assumption.',
        '* C19-m2 (Reg initial value read from live state): the canonical answer is now taken from a never-simulated fresh circuit.',
        '* C02-m1/m2: an operator-pair nesting family (precedence/associativity shapes) was added to ProgSpace, and one class per program is',
        '  instantiated with several constructor arguments in one process.',
        '* C12-m1: comparisons of a precision-reduced value with a freshly normalised FPNum of the same value were added.',
        '* C13-m1: significand products/sums at rounding and carry boundaries were added to the operand table.',
        '* C18-m2: changes only the geometry (a feedback edge drawn straight through other symbols); a geometric clause was added to',
        '  Layout.tla (no routed polyline passes through the position of a pin of another wire).']
open('/verif/SENSITIVITY.md', 'w').write('\n'.join(txt) + '\n')
print('SENSITIVITY.md: %d seeds, %d detected' % (len(rows), detected))
