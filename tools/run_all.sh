#!/bin/sh
# run every check of the manifest once (tier $1, default quick); summary lines on stdout
cd "$(dirname "$0")/.."
TIER=${1:-quick}
mkdir -p "${LOGDIR:-/tmp/w}"
shift
IDS=${*:-C01 C02 C03 C04 C05 C06 C07 C08 C09 C10 C11 C12 C13 C14 C15 C16 C17 C18 C19 C20}
for id in $IDS; do
  s=$(date +%s)
  ./check $id --tier $TIER > ${LOGDIR:-/tmp/w}/all_$id.log 2>&1
  rc=$?
  echo "$id rc=$rc $(( $(date +%s) - s ))s $(grep -c '^VIOLATION' ${LOGDIR:-/tmp/w}/all_$id.log) violations; $(tail -1 ${LOGDIR:-/tmp/w}/all_$id.log | cut -c1-160)"
done
