#!/bin/sh
# tools/try_seed.sh <patch.diff> <check id> [tier]  : apply a seeded change to /repo, run one check, undo it
P="$1"; ID="$2"; TIER="${3:-quick}"
cd /repo || exit 2
git diff --quiet || { echo "/repo not clean"; exit 2; }
git apply --whitespace=nowarn "$P" || { echo "patch does not apply"; exit 2; }
cd /verif && ./check "$ID" --tier "$TIER" 2>&1 | grep -v "^  signature" | tail -${TAIL:-6}
RC=$?
git -C /repo checkout -- .
git -C /repo diff --quiet && echo "(repo restored)"
