#!/usr/bin/env python3
"""tools/run_seeds.py [seed names...] [--tier quick] [--checks C04,C05]: apply each seeded change to /repo, run the
check(s) of its property (or the listed ones), record whether a VIOLATION was reported, restore /repo."""
import json, os, subprocess, sys, time
args = [a for a in sys.argv[1:] if not a.startswith('--')]
tier = 'quick'
checks = None
REPO = '/repo'     # --wt=<scratch worktree>: apply and test there instead (leaves /repo alone)
for a in sys.argv[1:]:
    if a.startswith('--tier='): tier = a.split('=')[1]
    if a.startswith('--checks='): checks = a.split('=')[1].split(',')
    if a.startswith('--wt='): REPO = a.split('=')[1]
root = '/verif/seeded'
names = args or sorted(os.listdir(root))
for n in names:
    d = os.path.join(root, n)
    meta = json.load(open(os.path.join(d, 'meta.json')))
    if subprocess.run(['git', '-C', REPO, 'diff', '--quiet']).returncode != 0:
        print(REPO + ' not clean'); sys.exit(2)
    r = subprocess.run(['git', '-C', REPO, 'apply', '--whitespace=nowarn', os.path.join(d, 'patch.diff')])
    if r.returncode != 0:
        print(n, 'patch does not apply'); continue
    try:
        for c in (checks or [meta['property']]):
            t0 = time.time()
            p = subprocess.run(['./check', c, '--tier', tier] + (['--repo', REPO] if REPO != '/repo' else []), cwd='/verif', capture_output=True, text=True)
            viol = [l for l in p.stdout.splitlines() if l.startswith('VIOLATION')]
            sigs = [l.strip() for l in p.stdout.splitlines() if l.strip().startswith('signature=')]
            res = {'check': c, 'tier': tier, 'exit': p.returncode, 'violations': len(viol), 'signatures': sigs[:4],
                   'wall_s': round(time.time() - t0, 1)}
            meta['checks_run'] = [x for x in meta['checks_run'] if not (x['check'] == c and x['tier'] == tier)] + [res]
            if p.returncode == 1 and viol:
                if c not in meta['detected_by']: meta['detected_by'].append(c)
            elif c in meta['detected_by'] and tier == 'quick':
                meta['detected_by'].remove(c)
            print(n, c, tier, 'exit', p.returncode, 'violations', len(viol), sigs[:2], '%.0fs' % (time.time() - t0))
            if p.returncode == 2:
                print(p.stdout[-1500:])
    finally:
        subprocess.run(['git', '-C', REPO, 'checkout', '--', '.'])
    json.dump(meta, open(os.path.join(d, 'meta.json'), 'w'), indent=1)
