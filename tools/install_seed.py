#!/usr/bin/env python3
"""tools/install_seed.py <ID> <m>  : copy a confirmed seeded change from /tmp/seed/<ID>/out/<m> to /verif/seeded/<ID>-<m>/"""
import json, shutil, sys, os
pid, m = sys.argv[1], sys.argv[2]
base = sys.argv[3] if len(sys.argv) > 3 else '/tmp/seed'          # scratch root of this round
as_ = sys.argv[4] if len(sys.argv) > 4 else m                      # name under /verif/seeded (m3, m4 ... for later rounds)
src = '%s/%s/out/%s' % (base, pid, m)
dst = '/verif/seeded/%s-%s' % (pid, as_)
os.makedirs(dst, exist_ok=True)
for f in ('patch.diff', 'demo.py', 'notes.md'):
    shutil.copy(os.path.join(src, f), os.path.join(dst, f))
conf = json.load(open(os.path.join(src, 'confirm.json')))
notes = open(os.path.join(src, 'notes.md')).read()
meta = {'property': pid, 'origin': 'independent sub-agent given only the property text and a scratch worktree',
        'needs_to_manifest': notes.strip().split('\n\n')[0][:1200],
        'confirmed': conf,
        'confirm_cmd': 'tools/confirm_seed.sh <scratch worktree> <this dir>  (apply, run the 161 tests, run demo; revert, run demo)',
        'checks_run': [], 'detected_by': []}
if os.path.exists(os.path.join(dst, 'meta.json')):
    old = json.load(open(os.path.join(dst, 'meta.json')))
    meta['checks_run'] = old.get('checks_run', [])
    meta['detected_by'] = old.get('detected_by', [])
json.dump(meta, open(os.path.join(dst, 'meta.json'), 'w'), indent=1)
print('installed', dst)
